/-
No handler run by the server's message loop sends an Acknowledgement: the walk of Lemmas/SrvEmit.lean
repeated with "every emitted message has a type id other than 3" in place of "comes from a sendable RTMP
message" (the acknowledgement step at the head of `handle_input` is the only sender of type 3: C17).
-/
import Rml.Lemmas.SrvEmit
namespace Rml.SrvNoAck
open Rml Rml.Bytes Rml.Chunk Rml.Amf0 Rml.Msgs Rml.Sess Rml.Emit Rml.SrvEmit

/-- sendable and not an Acknowledgement -/
def SendableNA : RtmpMsg → Prop
  | .unknown _ _ => False
  | .setChunkSize _ => False
  | .ack _ => False
  | _ => True

theorem sendableNA_sendable {m : RtmpMsg} (h : SendableNA m) : Sendable m := by
  cases m <;> first | exact h | trivial

theorem toPayload_typ_ne3 {m : RtmpMsg} {typ : Nat} {body : Bytes} (hs : SendableNA m) (h : toPayload m = .ok (typ, body)) :
    typ ≠ 3 := by
  cases m with
  | unknown t d => exact absurd hs id
  | setChunkSize n => exact absurd hs id
  | ack s => exact absurd hs id
  | amf0Command name tid obj args =>
    simp only [toPayload] at h
    split at h
    · simp only [Except.ok.injEq, Prod.mk.injEq] at h; omega
    · simp at h
  | amf0Data vals =>
    simp only [toPayload] at h
    split at h
    · simp only [Except.ok.injEq, Prod.mk.injEq] at h; omega
    · simp at h
  | userControl ev a b c =>
    simp only [toPayload] at h
    repeat' split at h
    all_goals first | (simp only [Except.ok.injEq, Prod.mk.injEq] at h; omega) | (simp at h)
  | _ => simp only [toPayload, Except.ok.injEq, Prod.mk.injEq] at h; omega

/-- the results `rs` of a step from `s` to `s'` contain exactly the packets of a well-formed serializer
    history from `s.ser` to `s'.ser`, in order, none of them an Acknowledgement (type id 3) -/
def Em (s s' : Srv.State) (rs : List Srv.Res) : Prop :=
  ∃ xs, Emits s.ser s'.ser xs ∧ xs.map (·.1) = outs rs ∧ ∀ x ∈ xs, x.2.typ ≠ 3

theorem em_same {s s' : Srv.State} {rs : List Srv.Res} (h1 : s'.ser = s.ser) (h2 : outs rs = []) : Em s s' rs :=
  ⟨[], by rw [h1]; exact Emits.nil _, by rw [h2]; rfl, fun _ h => by cases h⟩

theorem em_trans {a b c : Srv.State} {r1 r2 : List Srv.Res} (h1 : Em a b r1) (h2 : Em b c r2) : Em a c (r1 ++ r2) := by
  obtain ⟨x1, e1, m1, g1⟩ := h1
  obtain ⟨x2, e2, m2, g2⟩ := h2
  refine ⟨x1 ++ x2, e1.trans e2, ?_, ?_⟩
  · simp only [List.map_append, m1, m2, outs, List.filterMap_append]
  · intro x hx; rcases List.mem_append.mp hx with h | h
    · exact g1 x h
    · exact g2 x h

theorem sendMsg_emits_na {ser ser' : Ser.State} {m : RtmpMsg} {ts msid : Nat} {f d : Bool} {p : Ser.Packet}
    (h : sendMsg ser m ts msid f d = .ok (ser', p)) (hs : SendableNA m) (hts : ts < 4294967296)
    (hmsid : msid < 4294967296) :
    ∃ x : Msg, Emits ser ser' [(p, x)] ∧ x.typ ≠ 3 := by
  unfold sendMsg at h
  cases hp : toPayload m with
  | error e => simp [hp] at h
  | ok tb =>
    obtain ⟨typ, body⟩ := tb
    simp only [hp] at h
    cases hser : Ser.serialize ser { ts := ts, typ := typ, msid := msid, data := body } f d with
    | err e => simp [hser] at h
    | hang => simp [hser] at h
    | ok r =>
      simp only [hser, Except.ok.injEq] at h
      subst h
      obtain ⟨h1, h2⟩ := toPayload_typ (sendableNA_sendable hs) hp
      exact ⟨_, Emits.msg hser hts hmsid h1 h2, toPayload_typ_ne3 hs hp⟩

theorem em_send {s s' : Srv.State} {m : RtmpMsg} {ts msid : Nat} {f d : Bool} {p : Ser.Packet}
    (h : Srv.send s m ts msid f d = .ok (s', p)) (hs : SendableNA m) (hts : ts < 4294967296)
    (hmsid : msid < 4294967296) :
    Em s s' [.out p] ∧ s' = { s with ser := s'.ser } := by
  unfold Srv.send at h
  cases hm : sendMsg s.ser m ts msid f d with
  | error e => simp [hm] at h
  | ok r =>
    obtain ⟨ser', p'⟩ := r
    simp only [hm, Except.ok.injEq, Prod.mk.injEq] at h
    obtain ⟨h1, h2⟩ := h
    subst h1; subst h2
    obtain ⟨x, he, hf⟩ := sendMsg_emits_na hm hs hts hmsid
    exact ⟨⟨[(p', x)], he, rfl, fun y hy => by simp at hy; rw [hy]; exact hf⟩, rfl⟩

/-- one step: what it emits, and that it keeps the invariant -/
def Step (s s' : Srv.State) (rs : List Srv.Res) : Prop := Em s s' rs ∧ (Inv s → Inv s')

theorem step_send {s s' : Srv.State} {m : RtmpMsg} {ts msid : Nat} {f d : Bool} {p : Ser.Packet}
    (h : Srv.send s m ts msid f d = .ok (s', p)) (hs : SendableNA m) (hts : ts < 4294967296)
    (hmsid : msid < 4294967296) : Step s s' [.out p] := by
  obtain ⟨he, hf⟩ := em_send h hs hts hmsid
  exact ⟨he, fun hi => inv_frame (by rw [hf]) (by rw [hf]) hi⟩

theorem step_errorOut {s s' : Srv.State} {now : Nat} {code desc : Bytes} {tid sid : Nat} {rs : List Srv.Res}
    (h : Srv.errorOut s now code desc tid sid = .ok (s', rs)) (hsid : sid < 4294967296) : Step s s' rs := by
  unfold Srv.errorOut Srv.errorPacket at h
  split at h
  · simp at h
  · rename_i s2 p hs
    simp only [Except.ok.injEq, Prod.mk.injEq] at h
    rw [← h.1, ← h.2]
    exact step_send hs trivial (epoch_lt now) hsid

theorem step_closeOrDelete (s : Srv.State) (args : List Val) (delete : Bool) :
    Step s (Srv.cmdCloseOrDelete s args delete).1 (Srv.cmdCloseOrDelete s args delete).2 := by
  have triv : Step s s [] := ⟨em_same rfl rfl, fun h => h⟩
  unfold Srv.cmdCloseOrDelete
  cases hconn : s.connected
  · simpa using triv
  · simp only [Bool.not_eq_true, Bool.true_eq_false, if_false, not_true_eq_false]
    cases happ : s.app with
    | none => simpa using triv
    | some app =>
      simp only
      match args with
      | [] => simpa using triv
      | .number x :: rest =>
        simp only
        cases hg : mapGet (F64.toU32 x) s.streams with
        | none => simpa using triv
        | some st => exact ⟨em_same rfl (outs_finished _ _), fun h => inv_frame rfl rfl h⟩
      | .boolean _ :: _ => simpa using triv
      | .str _ :: _ => simpa using triv
      | .object _ :: _ => simpa using triv
      | .array _ :: _ => simpa using triv
      | .null :: _ => simpa using triv
      | .undefined :: _ => simpa using triv

/-- leaves of the walks: a step that returns events only and changes neither serializer, nor
    deserializer, nor requests -/
theorem step_ev (s : Srv.State) (e : Srv.Event) : Step s s [.ev e] := ⟨em_same rfl rfl, fun h => h⟩
theorem step_nil (s : Srv.State) : Step s s [] := ⟨em_same rfl rfl, fun h => h⟩

theorem step_cmdConnect {s s' : Srv.State} {tid : Nat} {obj : Val} {rs : List Srv.Res}
    (h : Srv.cmdConnect s tid obj = .ok (s', rs)) : Step s s' rs := by
  unfold Srv.cmdConnect at h
  (repeat' split at h)
  all_goals first
    | (simp at h; done)
    | (simp only [Except.ok.injEq, Prod.mk.injEq] at h
       obtain ⟨h1, h2⟩ := h
       subst h1; subst h2
       exact ⟨em_same rfl rfl, fun hi => inv_insert hi rfl rfl (by show (0 : Nat) < 4294967296; omega)⟩)

theorem step_cmdCreateStream {s s' : Srv.State} {now tid : Nat} {rs : List Srv.Res}
    (h : Srv.cmdCreateStream s now tid = .ok (s', rs)) : Step s s' rs := by
  unfold Srv.cmdCreateStream at h
  simp only at h
  split at h
  · simp at h
  · rename_i s2 p hs
    simp only [Except.ok.injEq, Prod.mk.injEq] at h
    rw [← h.1, ← h.2]
    have := step_send hs trivial (epoch_lt now) (by show (0 : Nat) < 4294967296; omega)
    exact ⟨this.1, fun hi => this.2 (inv_frame rfl rfl hi)⟩

theorem step_cmdPlay {s s' : Srv.State} {now sid tid : Nat} {args : List Val} {rs : List Srv.Res}
    (hsid : sid < 4294967296) (h : Srv.cmdPlay s now sid tid args = .ok (s', rs)) : Step s s' rs := by
  unfold Srv.cmdPlay at h
  match args, h with
  | [], h => exact step_errorOut h hsid
  | a0 :: rest, h =>
    simp only at h
    (repeat' split at h)
    all_goals first
      | exact step_errorOut h hsid
      | (simp only [Except.ok.injEq, Prod.mk.injEq] at h
         obtain ⟨h1, h2⟩ := h
         subst h1; subst h2
         exact ⟨em_same rfl rfl, fun hi => inv_insert hi rfl rfl hsid⟩)

theorem step_cmdPublish {s s' : Srv.State} {now sid tid : Nat} {args : List Val} {rs : List Srv.Res}
    (hsid : sid < 4294967296) (h : Srv.cmdPublish s now sid tid args = .ok (s', rs)) : Step s s' rs := by
  unfold Srv.cmdPublish at h
  match args, h with
  | [], h => exact step_errorOut h hsid
  | [_], h => exact step_errorOut h hsid
  | a0 :: a1 :: _, h =>
    simp only at h
    (repeat' split at h)
    all_goals first
      | exact step_errorOut h hsid
      | (simp at h; done)
      | (simp only [Except.ok.injEq, Prod.mk.injEq] at h
         obtain ⟨h1, h2⟩ := h
         subst h1; subst h2
         exact ⟨em_same rfl rfl, fun hi => inv_insert hi rfl rfl hsid⟩)
      | (rename_i s2 p hs
         simp only [Except.ok.injEq, Prod.mk.injEq] at h
         rw [← h.1, ← h.2]
         exact step_send hs trivial (epoch_lt now) hsid)

theorem step_handleCommand {s s' : Srv.State} {now sid : Nat} {name : Bytes} {tid : Nat} {obj : Val} {args : List Val}
    {rs : List Srv.Res} (hsid : sid < 4294967296)
    (h : Srv.handleCommand s now sid name tid obj args = .ok (s', rs)) : Step s s' rs := by
  unfold Srv.handleCommand at h
  split at h
  · exact step_cmdConnect h
  · split at h
    · simp only [Except.ok.injEq] at h
      have := step_closeOrDelete s args false
      rw [h] at this; exact this
    · split at h
      · exact step_cmdCreateStream h
      · split at h
        · simp only [Except.ok.injEq] at h
          have := step_closeOrDelete s args true
          rw [h] at this; exact this
        · split at h
          · exact step_cmdPlay hsid h
          · split at h
            · exact step_cmdPublish hsid h
            · simp only [Except.ok.injEq, Prod.mk.injEq] at h
              rw [← h.1, ← h.2]; exact step_ev _ _

theorem step_handleMessage {s s' : Srv.State} {now : Nat} {p : Msg} {m : RtmpMsg} {rs : List Srv.Res}
    (hsid : p.msid < 4294967296) (h : Srv.handleMessage s now p m = .ok (s', rs)) : Step s s' rs := by
  unfold Srv.handleMessage at h
  cases m with
  | amf0Command name tid obj args => exact step_handleCommand hsid h
  | amf0Data vals =>
    simp only [Except.ok.injEq, Prod.mk.injEq] at h
    rw [← h.1, ← h.2]; exact ⟨em_same rfl (outs_handleData _ _ _), fun hi => hi⟩
  | audio d =>
    simp only [Except.ok.injEq, Prod.mk.injEq] at h
    rw [← h.1, ← h.2]; exact ⟨em_same rfl (outs_handleMedia _ _ _ _ _), fun hi => hi⟩
  | video d =>
    simp only [Except.ok.injEq, Prod.mk.injEq] at h
    rw [← h.1, ← h.2]; exact ⟨em_same rfl (outs_handleMedia _ _ _ _ _), fun hi => hi⟩
  | setChunkSize n =>
    simp only at h
    split at h
    · simp at h
    · rename_i c hc
      simp only [Except.ok.injEq, Prod.mk.injEq] at h
      rw [← h.1, ← h.2]
      exact ⟨em_same rfl rfl, fun hi => ⟨Des.setMaxChunkSize_ok hi.1 hc, hi.2⟩⟩
  | userControl ev a b ts =>
    simp only at h
    cases ev <;> simp only at h
    all_goals first
      | (simp only [Except.ok.injEq, Prod.mk.injEq] at h; rw [← h.1, ← h.2]
         first | exact step_nil _ | exact step_ev _ _)
      | (split at h
         · simp at h
         · rename_i s2 pk hs
           simp only [Except.ok.injEq, Prod.mk.injEq] at h
           rw [← h.1, ← h.2]
           exact step_send hs trivial (epoch_lt now) (by show (0 : Nat) < 4294967296; omega))
  | abort _ => simp only [Except.ok.injEq, Prod.mk.injEq] at h; rw [← h.1, ← h.2]; exact step_nil _
  | ack n => simp only [Except.ok.injEq, Prod.mk.injEq] at h; rw [← h.1, ← h.2]; exact step_ev _ _
  | setPeerBandwidth _ _ => simp only [Except.ok.injEq, Prod.mk.injEq] at h; rw [← h.1, ← h.2]; exact step_nil _
  | windowAck n =>
    simp only [Except.ok.injEq, Prod.mk.injEq] at h; rw [← h.1, ← h.2]
    exact ⟨em_same rfl rfl, fun hi => inv_frame rfl rfl hi⟩
  | unknown _ _ =>
    simp only [Except.ok.injEq, Prod.mk.injEq] at h; rw [← h.1, ← h.2]
    exact ⟨em_same rfl rfl, fun hi => hi⟩

/-- the message loop: whatever it returns, the invariant survives; when it returns results, they extend
    what had been gathered by a well-formed history -/
theorem msgLoop_step (f : Nat) : ∀ (s s' s0 : Srv.State) (now : Nat) (acc : List Srv.Res) (r : Except Err (List Srv.Res)),
    Inv s → Srv.msgLoop f s now acc = (s', r) →
    Inv s' ∧ (∀ rs, r = .ok rs → Em s0 s acc → Em s0 s' rs) := by
  induction f with
  | zero =>
    intro s s' s0 now acc r hi h
    simp only [Srv.msgLoop, Prod.mk.injEq] at h
    rw [← h.1, ← h.2]; exact ⟨hi, fun rs hr => by cases hr⟩
  | succ f ih =>
    intro s s' s0 now acc r hi h
    simp only [Srv.msgLoop] at h
    obtain ⟨hc1, hm1⟩ := Des.next_ok s.des hi.1
    have hi1 : Inv { s with des := { core := (Des.next s.des).core, buf := (Des.next s.des).buf } } := ⟨hc1, hi.2⟩
    split at h
    · simp only [Prod.mk.injEq] at h; rw [← h.1, ← h.2]; exact ⟨hi1, fun rs hr => by cases hr⟩
    · split at h
      · simp only [Prod.mk.injEq] at h; rw [← h.1, ← h.2]
        exact ⟨hi1, fun rs hr he => by simp only [Except.ok.injEq] at hr; rw [← hr]; exact he⟩
      · rename_i p hp
        split at h
        · simp only [Prod.mk.injEq] at h; rw [← h.1, ← h.2]; exact ⟨hi1, fun rs hr => by cases hr⟩
        · split at h
          · simp only [Prod.mk.injEq] at h; rw [← h.1, ← h.2]; exact ⟨hi1, fun rs hr => by cases hr⟩
          · rename_i m hm s2 rs2 hmsg
            have hst := step_handleMessage (hm1 p hp) hmsg
            obtain ⟨hi', hem⟩ := ih s2 s' s0 now _ r (hst.2 hi1) h
            exact ⟨hi', fun rs hr he => hem rs hr (em_trans (show Em s0 _ acc from he) hst.1)⟩


end Rml.SrvNoAck
