/-
The session's clock on everything it sends by itself (client): the walk of Lemmas/CliEmit.lean repeated with
"every emitted message carries a timestamp satisfying `K`" (see Lemmas/SrvTs.lean).  The client's chunk-size
announcement is stamped 0, so `K` must hold of 0 as well as of the call's clock reading.
-/
import Rml.Lemmas.CliEmit
import Rml.Lemmas.SrvTs
namespace Rml.CliTs
open Rml Rml.Bytes Rml.Chunk Rml.Amf0 Rml.Msgs Rml.Sess Rml.Emit Rml.CliEmit
open Rml.SrvMsid (Good HasZero)
open Rml.SrvTs (HasNow)

variable {K : Nat → Prop} {now : Nat} [HasNow K now] [HasZero K]


def Em (K : Nat → Prop) (s s' : Cli.State) (rs : List Cli.Res) : Prop :=
  ∃ xs, Emits s.ser s'.ser xs ∧ xs.map (·.1) = outs rs ∧
    ∀ x ∈ xs, K x.2.ts

theorem em_same {s s' : Cli.State} {rs : List Cli.Res} (h1 : s'.ser = s.ser) (h2 : outs rs = []) : Em K s s' rs :=
  ⟨[], by rw [h1]; exact Emits.nil _, by rw [h2]; rfl, fun _ h => by cases h⟩

theorem em_trans {a b c : Cli.State} {r1 r2 : List Cli.Res} (h1 : Em K a b r1) (h2 : Em K b c r2) : Em K a c (r1 ++ r2) := by
  obtain ⟨x1, e1, m1, g1⟩ := h1
  obtain ⟨x2, e2, m2, g2⟩ := h2
  refine ⟨x1 ++ x2, e1.trans e2, ?_, ?_⟩
  · simp only [List.map_append, m1, m2, outs, List.filterMap_append]
  · intro x hx; rcases List.mem_append.mp hx with h | h
    · exact g1 x h
    · exact g2 x h

theorem em_send {s s' : Cli.State} {m : RtmpMsg} {ts msid : Nat} {d : Bool} {p : Ser.Packet}
    (h : Cli.send s m ts msid d = .ok (s', p)) (hs : Sendable m) (hts : Good K ts)
    (hmsid : msid < 4294967296) :
    Em K s s' [.out p] ∧ s' = { s with ser := s'.ser } := by
  unfold Cli.send at h
  cases hm : sendMsg s.ser m ts msid false d with
  | error e => simp [hm] at h
  | ok r =>
    obtain ⟨ser', p'⟩ := r
    simp only [hm, Except.ok.injEq, Prod.mk.injEq] at h
    obtain ⟨h1, h2⟩ := h
    subst h1; subst h2
    obtain ⟨x, he, _, hx, _⟩ := sendMsg_emits hm hs hts.1 hmsid
    exact ⟨⟨[(p', x)], he, rfl, fun y hy => by simp at hy; rw [hy]; show K x.ts; rw [hx]; exact hts.2⟩, rfl⟩

def Step (K : Nat → Prop) (s s' : Cli.State) (rs : List Cli.Res) : Prop := Em K s s' rs ∧ (Inv s → Inv s')

theorem step_send {s s' : Cli.State} {m : RtmpMsg} {ts msid : Nat} {d : Bool} {p : Ser.Packet}
    (h : Cli.send s m ts msid d = .ok (s', p)) (hs : Sendable m) (hts : Good K ts)
    (hmsid : msid < 4294967296) : Step K s s' [.out p] := by
  obtain ⟨he, hf⟩ := em_send h hs hts hmsid
  exact ⟨he, fun hi => inv_frame (by rw [hf]) (by rw [hf]) hi⟩

theorem em_cons {a b c : Cli.State} {p : Ser.Packet} {rs : List Cli.Res} (h1 : Em K a b [.out p]) (h2 : Em K b c rs) :
    Em K a c (.out p :: rs) := em_trans h1 h2

theorem step_nil (s : Cli.State) : Step K s s [] := ⟨em_same rfl rfl, fun h => h⟩
theorem step_ev (s : Cli.State) (e : Cli.Event) : Step K s s [.ev e] := ⟨em_same rfl rfl, fun h => h⟩
theorem step_unh (s : Cli.State) (m : Msg) : Step K s s [.unhandled m] := ⟨em_same rfl rfl, fun h => h⟩

theorem step_handleResult {s s' : Cli.State} {tid : Nat} {obj : Val} {args : List Val} {rs : List Cli.Res}
    (h : Cli.handleResult s now tid obj args = .ok (s', rs)) : Step K s s' rs := by
  have z : (0 : Nat) < 4294967296 := by omega
  unfold Cli.handleResult at h
  simp only at h
  cases hg : mapGet (F64.toU32 tid) s.txns with
  | none =>
    simp only [hg, Except.ok.injEq, Prod.mk.injEq] at h; rw [← h.1, ← h.2]; exact step_ev _ _
  | some txn =>
    simp only [hg] at h
    cases txn with
    | connection app =>
      simp only at h
      split at h
      · simp at h
      · rename_i s2 p1 hs1
        have st1 := step_send hs1 trivial (HasNow.out : Good K (epoch now)) z
        cases hcs : Ser.setMaxChunkSize s2.ser s.cfg.chunkSize 0 with
        | err e => simp [hcs] at h
        | hang => simp [hcs] at h
        | ok q =>
          obtain ⟨ser3, p2⟩ := q
          simp only [hcs, Except.ok.injEq, Prod.mk.injEq] at h
          rw [← h.1, ← h.2]
          have e2 := Emits.setcs hcs z
          obtain ⟨xs, ex, mx, gx⟩ := st1.1
          refine ⟨⟨xs ++ [(p2, _)], ex.trans e2, ?_, ?_⟩, fun hi => ?_⟩
          · simp only [List.map_append, mx]; rfl
          · intro x hx
            rcases List.mem_append.mp hx with hh | hh
            · exact gx x hh
            · simp at hh; rw [hh]; exact (HasZero.out : Good K 0).2
          · have := st1.2 (inv_frame (s := s) rfl rfl hi)
            exact ⟨this.1, this.2⟩
    | createStream purpose =>
      simp only at h
      match args, h with
      | [], h => simp at h
      | .number n :: rest, h =>
        simp only at h
        have hsid := toU32_lt n
        cases purpose with
        | play k =>
          simp only at h
          split at h
          · simp at h
          · rename_i s3 p1 hs1
            have st1 := step_send hs1 trivial (HasNow.out : Good K (epoch now)) z
            split at h
            · simp at h
            · rename_i s4 p2 hs2
              have st2 := step_send hs2 trivial (HasNow.out : Good K (epoch now)) hsid
              simp only [Except.ok.injEq, Prod.mk.injEq] at h
              rw [← h.1, ← h.2]
              exact ⟨em_cons st1.1 st2.1, fun hi => st2.2 (st1.2 (inv_active (s := s) rfl rfl hsid hi))⟩
        | publish k t =>
          simp only at h
          split at h
          · simp at h
          · rename_i s3 p1 hs1
            have st1 := step_send hs1 trivial (HasNow.out : Good K (epoch now)) hsid
            simp only [Except.ok.injEq, Prod.mk.injEq] at h
            rw [← h.1, ← h.2]
            exact ⟨st1.1, fun hi => st1.2 (inv_active (s := s) rfl rfl hsid hi)⟩
      | .boolean _ :: _, h => simp at h
      | .str _ :: _, h => simp at h
      | .object _ :: _, h => simp at h
      | .array _ :: _, h => simp at h
      | .null :: _, h => simp at h
      | .undefined :: _, h => simp at h

theorem step_handleError {s s' : Cli.State} {tid : Nat} {obj : Val} {args : List Val} {rs : List Cli.Res}
    (h : Cli.handleError s tid obj args = .ok (s', rs)) : Step K s s' rs := by
  unfold Cli.handleError at h
  simp only at h
  (repeat' split at h)
  all_goals first
    | (simp at h; done)
    | (simp only [Except.ok.injEq, Prod.mk.injEq] at h
       obtain ⟨h1, h2⟩ := h
       subst h1; subst h2
       exact ⟨em_same rfl rfl, fun hi => inv_frame rfl rfl hi⟩)

theorem step_handleOnStatus {s s' : Cli.State} {args : List Val} {rs : List Cli.Res}
    (h : Cli.handleOnStatus s args = .ok (s', rs)) : Step K s s' rs := by
  unfold Cli.handleOnStatus at h
  (repeat' split at h)
  all_goals first
    | (simp at h; done)
    | (simp only [Except.ok.injEq, Prod.mk.injEq] at h
       obtain ⟨h1, h2⟩ := h
       subst h1; subst h2
       exact ⟨em_same rfl rfl, fun hi => inv_frame rfl rfl hi⟩)

/-- one decoded message: the invariant survives whatever happens; results extend the history -/
theorem handleMessage_step {s s' : Cli.State} {p : Msg} {m : RtmpMsg} {r : Except Err (List Cli.Res)}
    (hi : Inv s) (h : Cli.handleMessage s now p m = (s', r)) :
    Inv s' ∧ (∀ rs, r = .ok rs → Em K s s' rs) := by
  have z : (0 : Nat) < 4294967296 := by omega
  have same : ∀ rs0 : List Cli.Res, outs rs0 = [] → (s, (Except.ok rs0 : Except Err (List Cli.Res))) = (s', r) →
      Inv s' ∧ (∀ rs, r = .ok rs → Em K s s' rs) := by
    intro rs0 ho hh
    simp only [Prod.mk.injEq] at hh
    rw [← hh.1, ← hh.2]
    exact ⟨hi, fun rs hr => by simp only [Except.ok.injEq] at hr; rw [← hr]; exact em_same rfl ho⟩
  unfold Cli.handleMessage at h
  cases m with
  | ack n => exact same _ rfl h
  | amf0Command name tid obj args =>
    simp only at h
    split at h
    · split at h
      · rename_i s2 rs2 hr
        simp only [Prod.mk.injEq] at h; rw [← h.1, ← h.2]
        have st := step_handleResult (K := K) (now := now) hr
        exact ⟨st.2 hi, fun rs hh => by simp only [Except.ok.injEq] at hh; rw [← hh]; exact st.1⟩
      · simp only [Prod.mk.injEq] at h; rw [← h.1, ← h.2]
        exact ⟨inv_errState s tid args hi, fun rs hh => by cases hh⟩
    · split at h
      · split at h
        · rename_i s2 rs2 hr
          simp only [Prod.mk.injEq] at h; rw [← h.1, ← h.2]
          have st := step_handleError (K := K) hr
          exact ⟨st.2 hi, fun rs hh => by simp only [Except.ok.injEq] at hh; rw [← hh]; exact st.1⟩
        · simp only [Prod.mk.injEq] at h; rw [← h.1, ← h.2]
          exact ⟨inv_frame rfl rfl hi, fun rs hh => by cases hh⟩
      · split at h
        · split at h
          · rename_i s2 rs2 hr
            simp only [Prod.mk.injEq] at h; rw [← h.1, ← h.2]
            have st := step_handleOnStatus (K := K) hr
            exact ⟨st.2 hi, fun rs hh => by simp only [Except.ok.injEq] at hh; rw [← hh]; exact st.1⟩
          · simp only [Prod.mk.injEq] at h; rw [← h.1, ← h.2]
            exact ⟨hi, fun rs hh => by cases hh⟩
        · exact same _ rfl h
  | amf0Data vals => exact same _ (outs_handleData _ _ _) h
  | audio d =>
    simp only [Prod.mk.injEq] at h; rw [← h.1, ← h.2]
    refine ⟨hi, fun rs hh => ?_⟩
    cases hm : Cli.handleMedia s false p.msid d p.ts with
    | error e => simp [hm] at hh
    | ok r0 => simp only [hm, Except.ok.injEq] at hh; rw [← hh]; exact em_same rfl (outs_handleMedia hm)
  | video d =>
    simp only [Prod.mk.injEq] at h; rw [← h.1, ← h.2]
    refine ⟨hi, fun rs hh => ?_⟩
    cases hm : Cli.handleMedia s true p.msid d p.ts with
    | error e => simp [hm] at hh
    | ok r0 => simp only [hm, Except.ok.injEq] at hh; rw [← hh]; exact em_same rfl (outs_handleMedia hm)
  | userControl ev a b ts =>
    simp only at h
    cases ev <;> simp only at h
    all_goals first
      | exact same _ rfl h
      | (split at h
         · simp only [Prod.mk.injEq] at h; rw [← h.1, ← h.2]; exact ⟨hi, fun rs hh => by cases hh⟩
         · rename_i s2 pk hs
           simp only [Prod.mk.injEq] at h; rw [← h.1, ← h.2]
           have st := step_send hs trivial (HasNow.out : Good K (epoch now)) z
           exact ⟨st.2 hi, fun rs hh => by simp only [Except.ok.injEq] at hh; rw [← hh]; exact st.1⟩)
  | windowAck n =>
    simp only [Prod.mk.injEq] at h; rw [← h.1, ← h.2]
    exact ⟨inv_frame rfl rfl hi, fun rs hh => by simp only [Except.ok.injEq] at hh; rw [← hh]; exact em_same rfl rfl⟩
  | setChunkSize n =>
    simp only at h
    split at h
    · simp only [Prod.mk.injEq] at h; rw [← h.1, ← h.2]; exact ⟨hi, fun rs hh => by cases hh⟩
    · rename_i c hc
      simp only [Prod.mk.injEq] at h; rw [← h.1, ← h.2]
      exact ⟨⟨Des.setMaxChunkSize_ok hi.1 hc, hi.2⟩, fun rs hh => by
        simp only [Except.ok.injEq] at hh; rw [← hh]; exact em_same rfl rfl⟩
  | abort _ => exact same _ rfl h
  | setPeerBandwidth _ _ => exact same _ rfl h
  | unknown _ _ => exact same _ rfl h


end Rml.CliTs
