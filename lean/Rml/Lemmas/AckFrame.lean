/-
The acknowledgement fields of both session models (`window` = the peer's announced window, `since` = bytes
received since the last acknowledgement) under EVERY operation: who may change them and how.
* `window` changes exactly when a Window Acknowledgement Size message of the peer is handled, to the
  announced value (`srv_handleMessage`, `cli_handleMessage`; over a list of messages: `srv_steps_window`,
  `cli_steps_window` = the last one announced) — never the session's own configured window, never Set
  Peer Bandwidth, never a command, never an application call;
* `since` changes only in the acknowledgement step at the head of `handle_input` (`srv_handleInput_since`,
  `cli_handleInput_since`): the message loop (`*_msgLoop_since`, every outcome, errors included) and every
  application call (`srv_acceptRequest` … `cli_publishMedia`) leave it alone.
-/
import Rml.Model.ServerSession
import Rml.Model.ClientSession
import Rml.Lemmas.SrvSteps
import Rml.Lemmas.CliSteps
namespace Rml.AckFrame
open Rml Rml.Bytes Rml.Chunk Rml.Amf0 Rml.Msgs Rml.Sess

/-- the two acknowledgement fields of `t` are those of `s` -/
def Same (s t : Srv.State) : Prop := t.window = s.window ∧ t.since = s.since
theorem Same.rfl' (s : Srv.State) : Same s s := ⟨rfl, rfl⟩

/-- "left the two acknowledgement fields alone" for a server result that carries a state only on success -/
def FrS {α : Type} (s : Srv.State) : Except Err (Srv.State × α) → Prop
  | .ok (s', _) => s'.window = s.window ∧ s'.since = s.since
  | .error _ => True

theorem frS_send (s : Srv.State) (m : RtmpMsg) (ts msid : Nat) (force drop : Bool) :
    FrS s (Srv.send s m ts msid force drop) := by
  unfold Srv.send
  split <;> simp [FrS]

theorem frS_of {α : Type} {s s' : Srv.State} {r : Except Err (Srv.State × α)} {x : α} (h : FrS s r) (hr : r = .ok (s', x)) :
    s'.window = s.window ∧ s'.since = s.since := by
  subst hr; exact h

theorem frS_errorOut (s : Srv.State) (now : Nat) (code desc : Bytes) (tid sid : Nat) :
    FrS s (Srv.errorOut s now code desc tid sid) := by
  unfold Srv.errorOut Srv.errorPacket
  have := frS_send s (Srv.commandMsg (str "_error") tid .null [statusObject (str "_error") code desc]) (epoch now) sid false false
  split
  · simp [FrS]
  · rename_i s' p h
    rw [h] at this
    exact this

theorem frS_cmdConnect (s : Srv.State) (tid : Nat) (obj : Val) : FrS s (Srv.cmdConnect s tid obj) := by
  unfold Srv.cmdConnect
  repeat' split
  all_goals simp [FrS]

theorem fr_cmdCloseOrDelete (s : Srv.State) (args : List Val) (d : Bool) :
    Same s (Srv.cmdCloseOrDelete s args d).1 := by
  unfold Srv.cmdCloseOrDelete Same
  repeat' (first | split | (dsimp only; split))
  all_goals exact ⟨rfl, rfl⟩

theorem frS_cmdCreateStream (s : Srv.State) (now tid : Nat) : FrS s (Srv.cmdCreateStream s now tid) := by
  unfold Srv.cmdCreateStream
  simp only
  split
  · simp [FrS]
  · rename_i s2 p h
    have := frS_of (frS_send _ _ _ _ _ _) h
    simpa [FrS] using this


theorem frS_errOutAny {s : Srv.State} {r : Except Err (Srv.State × List Srv.Res)} (code desc : Bytes) (now tid sid : Nat)
    (h : r = Srv.errorOut s now code desc tid sid) : FrS s r := h ▸ frS_errorOut s now code desc tid sid

theorem frS_cmdPublish (s : Srv.State) (now sid tid : Nat) (args : List Val) : FrS s (Srv.cmdPublish s now sid tid args) := by
  have e1 := frS_errorOut s now (str "NetStream.Publish.Start") (str "Invalid publish arguments") tid sid
  have e2 := frS_errorOut s now (str "NetStream.Publish.Start") (str "Can't publish before connecting") tid sid
  have e3 := frS_send s (Srv.commandMsg (str "_error") tid .null
                [statusObject (str "error") (str "NetStream.Publish.Start") (str "Invalid publish mode given")]) (epoch now) sid false false
  unfold Srv.cmdPublish
  dsimp only
  split
  all_goals try exact e1
  split
  all_goals try exact e2
  split
  all_goals try exact e2
  split
  all_goals try exact e1
  split
  all_goals try exact e1
  rename_i rm
  generalize (if Srv.lower rm = str "live" then some Srv.PublishMode.live
        else if Srv.lower rm = str "append" then some Srv.PublishMode.append
          else if Srv.lower rm = str "record" then some Srv.PublishMode.record else none) = mode
  cases mode with
  | some m => simp [FrS]
  | none =>
    dsimp only
    split
    · simp [FrS]
    · rename_i h; rw [h] at e3; exact e3


theorem frS_cmdPlay (s : Srv.State) (now sid tid : Nat) (args : List Val) : FrS s (Srv.cmdPlay s now sid tid args) := by
  have e1 := frS_errorOut s now (str "NetStream.Play.Start") (str "Invalid play arguments") tid sid
  have e2 := frS_errorOut s now (str "NetStream.Play.Start") (str "Can't play before connecting") tid sid
  unfold Srv.cmdPlay
  dsimp only
  split
  all_goals try exact e1
  split
  all_goals try exact e2
  split
  all_goals try exact e2
  split
  all_goals try exact e1
  simp [FrS]

theorem frS_handleCommand (s : Srv.State) (now sid : Nat) (name : Bytes) (tid : Nat) (obj : Val) (args : List Val) :
    FrS s (Srv.handleCommand s now sid name tid obj args) := by
  unfold Srv.handleCommand
  split
  · exact frS_cmdConnect s tid obj
  split
  · exact fr_cmdCloseOrDelete s args false
  split
  · exact frS_cmdCreateStream s now tid
  split
  · exact fr_cmdCloseOrDelete s args true
  split
  · exact frS_cmdPlay s now sid tid args
  split
  · exact frS_cmdPublish s now sid tid args
  · exact ⟨rfl, rfl⟩

/-- the window the message announces, if it is a Window Acknowledgement Size message -/
def announced (w : Option Nat) : RtmpMsg → Option Nat
  | .windowAck n => some n
  | _ => w

/-- **server, one message**: the counter is never touched; the window changes exactly when the message
    is the peer's Window Acknowledgement Size, to the announced value -/
theorem srv_handleMessage (s s' : Srv.State) (now : Nat) (p : Msg) (m : RtmpMsg) (rs : List Srv.Res)
    (h : Srv.handleMessage s now p m = .ok (s', rs)) : s'.window = announced s.window m ∧ s'.since = s.since := by
  unfold Srv.handleMessage at h
  cases m with
  | windowAck n =>
    simp only [Except.ok.injEq, Prod.mk.injEq] at h
    obtain ⟨h1, _⟩ := h; subst h1; exact ⟨rfl, rfl⟩
  | amf0Command name tid obj args =>
    exact frS_of (frS_handleCommand s now p.msid name tid obj args) h
  | setChunkSize n =>
    simp only at h
    split at h
    · cases h
    · simp only [Except.ok.injEq, Prod.mk.injEq] at h
      obtain ⟨h1, _⟩ := h; subst h1; exact ⟨rfl, rfl⟩
  | userControl ev a b ts =>
    simp only at h
    split at h
    · split at h
      · cases h
      · rename_i hs
        simp only [Except.ok.injEq, Prod.mk.injEq] at h
        obtain ⟨h1, _⟩ := h; subst h1
        exact frS_of (frS_send _ _ _ _ _ _) hs
    · simp only [Except.ok.injEq, Prod.mk.injEq] at h
      obtain ⟨h1, _⟩ := h; subst h1; exact ⟨rfl, rfl⟩
    · simp only [Except.ok.injEq, Prod.mk.injEq] at h
      obtain ⟨h1, _⟩ := h; subst h1; exact ⟨rfl, rfl⟩
  | _ =>
    simp only [Except.ok.injEq, Prod.mk.injEq] at h
    obtain ⟨h1, _⟩ := h; subst h1; exact ⟨rfl, rfl⟩


/-- **server, message loop, every outcome** (results or error, K2 included): the counter is not touched -/
theorem srv_msgLoop_since : ∀ (f : Nat) (s : Srv.State) (now : Nat) (acc : List Srv.Res),
    (Srv.msgLoop f s now acc).1.since = s.since := by
  intro f
  induction f with
  | zero => intro s now acc; rfl
  | succ f ih =>
    intro s now acc
    unfold Srv.msgLoop
    dsimp only
    split
    · rfl
    · split
      · rfl
      · split
        · rfl
        · split
          · rfl
          · rename_i h
            rw [ih]
            exact (srv_handleMessage _ _ _ _ _ _ h).2

/-- the window in force after a list of decoded messages: the last one announced, else the old one -/
def lastWin (w : Option Nat) : List Msg → Option Nat
  | [] => w
  | m :: ms =>
    lastWin (match fromPayload m.typ m.data with
             | .ok rm => announced w rm
             | .error _ => w) ms


theorem same_send {a b : Srv.State} {m : RtmpMsg} {ts msid : Nat} {f d : Bool} {p : Ser.Packet}
    (h : Srv.send a m ts msid f d = .ok (b, p)) : b.window = a.window ∧ b.since = a.since := frS_of (frS_send _ _ _ _ _ _) h

theorem same_errorPacket {a b : Srv.State} {now : Nat} {code desc : Bytes} {tid sid : Nat} {p : Ser.Packet}
    (h : Srv.errorPacket a now code desc tid sid = .ok (b, p)) : b.window = a.window ∧ b.since = a.since := by
  unfold Srv.errorPacket at h; exact same_send h

theorem srv_acceptRequest (s : Srv.State) (now id : Nat) : Same s (Srv.acceptRequest s now id).1 := by
  unfold Srv.acceptRequest Same
  repeat' (first | split | (dsimp only; split))
  all_goals grind [→ same_send]


theorem srv_rejectRequest (s : Srv.State) (now id : Nat) (code desc : Bytes) : Same s (Srv.rejectRequest s now id code desc).1 := by
  unfold Srv.rejectRequest Same
  repeat' (first | split | (dsimp only; split))
  all_goals grind [→ same_errorPacket]

theorem srv_sendMedia (s : Srv.State) (v : Bool) (sid : Nat) (d : Bytes) (ts : Nat) (drop : Bool) :
    Same s (Srv.sendMedia s v sid d ts drop).1 := by
  unfold Srv.sendMedia Same
  repeat' (first | split | (dsimp only; split))
  all_goals grind [→ same_send]

theorem srv_sendMetadata (s : Srv.State) (now sid : Nat) (m : Metadata) : Same s (Srv.sendMetadata s now sid m).1 := by
  unfold Srv.sendMetadata Same
  repeat' (first | split | (dsimp only; split))
  all_goals grind [→ same_send]

theorem srv_sendPing (s : Srv.State) (now : Nat) : Same s (Srv.sendPing s now).1 := by
  unfold Srv.sendPing Same
  repeat' (first | split | (dsimp only; split))
  all_goals grind [→ same_send]

theorem srv_finishPlaying (s : Srv.State) (now sid : Nat) : Same s (Srv.finishPlaying s now sid).1 := by
  unfold Srv.finishPlaying Same
  repeat' (first | split | (dsimp only; split))
  all_goals grind [→ same_send]

/-- **server, `handle_input`, every outcome**: the counter after the call is the acknowledgement step's
    (count the call's bytes; restart at 0 when an acknowledgement was due) — or, when the due
    acknowledgement could not be serialized, the call fails and the bytes stay counted -/
theorem srv_handleInput_since (s : Srv.State) (now : Nat) (bytes : Bytes) :
    (Srv.handleInput s now bytes).1.since = (ackStep s.window s.since bytes.length).1 ∨
    (∃ n e, (ackStep s.window s.since bytes.length).2 = some n ∧ (Srv.handleInput s now bytes).2 = .error e ∧
      (Srv.handleInput s now bytes).1.since = min (s.since + bytes.length % 4294967296) 4294967295) := by
  unfold Srv.handleInput
  cases hk : ackStep s.window s.since bytes.length with
  | mk since ack =>
    cases ack with
    | none => left; simp only; rw [srv_msgLoop_since]
    | some n =>
      simp only
      split
      · rename_i e he
        right; exact ⟨n, e, rfl, rfl, rfl⟩
      · left; rw [srv_msgLoop_since]


/-- **server, a list of messages handled successfully**: the window afterwards is the last one the
    peer announced among them (else the old one); the counter is untouched -/
theorem srv_steps_window (now : Nat) : ∀ (ms : List Msg) (s sF : Srv.State) (rs : List Srv.Res),
    SrvSteps.steps s now ms = .ok (sF, rs) → sF.window = lastWin s.window ms ∧ sF.since = s.since := by
  intro ms
  induction ms with
  | nil =>
    intro s sF rs h
    simp only [SrvSteps.steps, Except.ok.injEq, Prod.mk.injEq] at h
    obtain ⟨h1, _⟩ := h; subst h1; exact ⟨rfl, rfl⟩
  | cons m ms ih =>
    intro s sF rs h
    simp only [SrvSteps.steps] at h
    cases hsm : SrvSteps.stepMsg s now m with
    | error e => simp [hsm] at h
    | ok q =>
      obtain ⟨s2, rs1⟩ := q
      simp only [hsm] at h
      cases hrest : SrvSteps.steps s2 now ms with
      | error e => simp [hrest] at h
      | ok q2 =>
        obtain ⟨s3, rs2⟩ := q2
        simp only [hrest, Except.ok.injEq, Prod.mk.injEq] at h
        obtain ⟨e1, _⟩ := h
        subst e1
        obtain ⟨hw, hs⟩ := ih s2 s3 rs2 hrest
        unfold SrvSteps.stepMsg at hsm
        unfold lastWin
        cases hfp : fromPayload m.typ m.data with
        | error e => simp [hfp] at hsm
        | ok rm =>
          simp only [hfp] at hsm ⊢
          obtain ⟨hw2, hs2⟩ := srv_handleMessage _ _ _ _ _ _ hsm
          rw [hw, hs, hw2, hs2]
          exact ⟨rfl, rfl⟩

/-! ## client -/

def SameC (s t : Cli.State) : Prop := t.window = s.window ∧ t.since = s.since

theorem same_sendC {a b : Cli.State} {m : RtmpMsg} {ts msid : Nat} {d : Bool} {p : Ser.Packet}
    (h : Cli.send a m ts msid d = .ok (b, p)) : b.window = a.window ∧ b.since = a.since := by
  unfold Cli.send at h
  split at h
  · cases h
  · simp only [Except.ok.injEq, Prod.mk.injEq] at h
    obtain ⟨h1, _⟩ := h; subst h1; exact ⟨rfl, rfl⟩

theorem cli_requestConnection (s : Cli.State) (now : Nat) (app : Bytes) : SameC s (Cli.requestConnection s now app).1 := by
  unfold Cli.requestConnection SameC
  repeat' (first | split | (dsimp only; split))
  all_goals grind [→ same_sendC]

theorem cli_requestStream (s : Cli.State) (now : Nat) (p : Cli.Purpose) : SameC s (Cli.requestStream s now p).1 := by
  unfold Cli.requestStream SameC
  repeat' (first | split | (dsimp only; split))
  all_goals grind [→ same_sendC]

theorem cli_stop (s : Cli.State) (now : Nat) (play : Bool) : SameC s (Cli.stop s now play).1 := by
  unfold Cli.stop SameC
  repeat' (first | split | (dsimp only; split))
  all_goals grind [→ same_sendC]

theorem cli_sendPing (s : Cli.State) (now : Nat) : SameC s (Cli.sendPing s now).1 := by
  unfold Cli.sendPing SameC
  repeat' (first | split | (dsimp only; split))
  all_goals grind [→ same_sendC]

theorem cli_publishMetadata (s : Cli.State) (now : Nat) (m : Metadata) : SameC s (Cli.publishMetadata s now m).1 := by
  unfold Cli.publishMetadata SameC
  repeat' (first | split | (dsimp only; split))
  all_goals grind [→ same_sendC]

theorem cli_publishMedia (s : Cli.State) (v : Bool) (d : Bytes) (ts : Nat) (drop : Bool) : SameC s (Cli.publishMedia s v d ts drop).1 := by
  unfold Cli.publishMedia SameC
  repeat' (first | split | (dsimp only; split))
  all_goals grind [→ same_sendC]


def FrC {α : Type} (s : Cli.State) : Except Err (Cli.State × α) → Prop
  | .ok (s', _) => s'.window = s.window ∧ s'.since = s.since
  | .error _ => True

theorem cli_handleResult (s : Cli.State) (now tid : Nat) (obj : Val) (args : List Val) :
    FrC s (Cli.handleResult s now tid obj args) := by
  unfold Cli.handleResult
  repeat' (first | split | (dsimp only; split))
  all_goals simp only [FrC]
  all_goals grind [→ same_sendC]

theorem cli_handleResultErrState (s : Cli.State) (tid : Nat) (args : List Val) :
    SameC s (Cli.handleResultErrState s tid args) := by
  unfold Cli.handleResultErrState SameC
  repeat' (first | split | (dsimp only; split))
  all_goals exact ⟨rfl, rfl⟩

theorem cli_handleError (s : Cli.State) (tid : Nat) (obj : Val) (args : List Val) :
    FrC s (Cli.handleError s tid obj args) := by
  unfold Cli.handleError
  repeat' (first | split | (dsimp only; split))
  all_goals simp only [FrC]
  all_goals grind

theorem cli_handleOnStatus (s : Cli.State) (args : List Val) : FrC s (Cli.handleOnStatus s args) := by
  unfold Cli.handleOnStatus
  repeat' (first | split | (dsimp only; split))
  all_goals simp only [FrC]
  all_goals grind

/-- **client, one message, every outcome**: the counter is never touched; the window changes exactly
    when the message is the peer's Window Acknowledgement Size, to the announced value -/
theorem cli_handleMessage (s : Cli.State) (now : Nat) (p : Msg) (m : RtmpMsg) :
    (Cli.handleMessage s now p m).1.window = announced s.window m ∧ (Cli.handleMessage s now p m).1.since = s.since := by
  unfold Cli.handleMessage
  cases m with
  | windowAck n => exact ⟨rfl, rfl⟩
  | amf0Command name tid obj args =>
    have h1 := cli_handleResult s now tid obj args
    have h2 := cli_handleError s tid obj args
    have h3 := cli_handleOnStatus s args
    have h4 := cli_handleResultErrState s tid args
    unfold FrC at h1 h2 h3
    unfold SameC at h4
    simp only [announced]
    repeat' (first | split | (dsimp only; split))
    all_goals grind
  | setChunkSize n =>
    simp only [announced]
    repeat' (first | split | (dsimp only; split))
    all_goals exact ⟨rfl, rfl⟩
  | userControl ev a b ts =>
    simp only [announced]
    repeat' (first | split | (dsimp only; split))
    all_goals grind [→ same_sendC]
  | _ => exact ⟨rfl, rfl⟩


theorem cli_hm_since {s s2 : Cli.State} {now : Nat} {p : Msg} {m : RtmpMsg} {r : Except Err (List Cli.Res)}
    (h : Cli.handleMessage s now p m = (s2, r)) : s2.since = s.since := by
  have := (cli_handleMessage s now p m).2
  rw [h] at this; exact this

/-- **client, message loop, every outcome**: the counter is not touched -/
theorem cli_msgLoop_since : ∀ (f : Nat) (s : Cli.State) (now : Nat) (acc : List Cli.Res),
    (Cli.msgLoop f s now acc).1.since = s.since := by
  intro f
  induction f with
  | zero => intro s now acc; rfl
  | succ f ih =>
    intro s now acc
    unfold Cli.msgLoop
    dsimp only
    split
    · rfl
    · split
      · rfl
      · split
        · rfl
        · split
          · rename_i s2 e he
            have := cli_hm_since he
            exact this
          · rename_i s2 rs he
            have := cli_hm_since he
            rw [ih]; exact this

theorem cli_steps_window (now : Nat) : ∀ (ms : List Msg) (s sF : Cli.State) (rs : List Cli.Res),
    CliSteps.steps s now ms = .ok (sF, rs) → sF.window = lastWin s.window ms ∧ sF.since = s.since := by
  intro ms
  induction ms with
  | nil =>
    intro s sF rs h
    simp only [CliSteps.steps, Except.ok.injEq, Prod.mk.injEq] at h
    obtain ⟨h1, _⟩ := h; subst h1; exact ⟨rfl, rfl⟩
  | cons m ms ih =>
    intro s sF rs h
    simp only [CliSteps.steps] at h
    cases hsm : CliSteps.stepMsg s now m with
    | error e => simp [hsm] at h
    | ok q =>
      obtain ⟨s2, rs1⟩ := q
      simp only [hsm] at h
      cases hrest : CliSteps.steps s2 now ms with
      | error e => simp [hrest] at h
      | ok q2 =>
        obtain ⟨s3, rs2⟩ := q2
        simp only [hrest, Except.ok.injEq, Prod.mk.injEq] at h
        obtain ⟨e1, _⟩ := h
        subst e1
        obtain ⟨hw, hs⟩ := ih s2 s3 rs2 hrest
        unfold CliSteps.stepMsg at hsm
        unfold lastWin
        cases hfp : fromPayload m.typ m.data with
        | error e => simp [hfp] at hsm
        | ok rm =>
          simp only [hfp] at hsm ⊢
          obtain ⟨hw2, hs2⟩ := cli_handleMessage s now m rm
          split at hsm
          · cases hsm
          · rename_i s2' rs' he
            simp only [Except.ok.injEq, Prod.mk.injEq] at hsm
            obtain ⟨e2, _⟩ := hsm
            subst e2
            rw [he] at hw2 hs2
            rw [hw, hs, hw2, hs2]
            exact ⟨rfl, rfl⟩

theorem cli_handleInput_since (s : Cli.State) (now : Nat) (bytes : Bytes) :
    (Cli.handleInput s now bytes).1.since = (ackStep s.window s.since bytes.length).1 ∨
    (∃ n e, (ackStep s.window s.since bytes.length).2 = some n ∧ (Cli.handleInput s now bytes).2 = .error e ∧
      (Cli.handleInput s now bytes).1.since = min (s.since + bytes.length % 4294967296) 4294967295) := by
  unfold Cli.handleInput
  cases hk : ackStep s.window s.since bytes.length with
  | mk since ack =>
    cases ack with
    | none => left; simp only; rw [cli_msgLoop_since]
    | some n =>
      simp only
      split
      · rename_i e he
        right; exact ⟨n, e, rfl, rfl, rfl⟩
      · left; rw [cli_msgLoop_since]

end Rml.AckFrame
