/-
Omitted droppable packets at `handle_input` level: the delivery lemmas of AckFlow.lean with ANY subset of the
droppable packets among the pending ones left out, and the media theorems on top of them.
-/
import Rml.Lemmas.AckFlow
namespace Rml.AckDrop
open Rml Rml.Bytes Rml.Chunk Rml.Amf0 Rml.Msgs Rml.Sess Rml.SerHist Rml.Emit Rml.Link Rml.Exchange Rml.WfSteps Rml.Workflow Rml.AckHop Rml.AckFlow

/-- server: a buffer-free deserializer that decodes `W` into `M` with nothing left: the drain loop is the fold over `M` -/
theorem srv_recv_core {v sF : Srv.State} {W : Bytes} {M : List Msg} {core' : Des.Core} {rs : List Srv.Res} (now : Nat)
    (hbuf : v.des.buf = [])
    (hfeed : Des.feed v.des W = { core := core', buf := [], msgs := M, err := none })
    (hst : SrvSteps.steps v now M = .ok (sF, rs)) :
    SrvPart.drain v now W = ({ sF with des := { core := core', buf := [] } }, .ok rs) := by
  have hrun : Des.run v.des.core W [] = { core := core', buf := [], msgs := M, err := none } := by
    rw [Des.feed_eq_run, hbuf] at hfeed; simpa using hfeed
  unfold SrvPart.drain
  have hstate : BufS.withBuf v (v.des.buf ++ W) = { v with des := { core := v.des.core, buf := W } } := by
    unfold BufS.withBuf; rw [hbuf]; rfl
  rw [hstate]
  have := SrvSteps.msgLoop_steps now M (W.length + v.des.buf.length + 2) v sF v.des.core W core' [] rs
    hrun (by have := SrvPart.fuelOK_drain v W; rw [hstate] at this; exact this) hst
  simpa using this

theorem cli_recv_core {c sF : Cli.State} {W : Bytes} {M : List Msg} {core' : Des.Core} {rs : List Cli.Res} (now : Nat)
    (hbuf : c.des.buf = [])
    (hfeed : Des.feed c.des W = { core := core', buf := [], msgs := M, err := none })
    (hst : CliSteps.steps c now M = .ok (sF, rs)) :
    CliPart.drain c now W = ({ sF with des := { core := core', buf := [] } }, .ok rs) := by
  have hrun : Des.run c.des.core W [] = { core := core', buf := [], msgs := M, err := none } := by
    rw [Des.feed_eq_run, hbuf] at hfeed; simpa using hfeed
  unfold CliPart.drain
  have hstate : BufC.withBuf c (c.des.buf ++ W) = { c with des := { core := c.des.core, buf := W } } := by
    unfold BufC.withBuf; rw [hbuf]; rfl
  rw [hstate]
  have := CliSteps.msgLoop_steps now M (W.length + c.des.buf.length + 2) c sF c.des.core W core' [] rs
    hrun (by have := CliPart.fuelOK_drain c W; rw [hstate] at this; exact this) hst
  simpa using this

/-- **delivery to the server with omissions**: any subset of the droppable packets among the pending ones is left
    out (`mask`); otherwise as `AckFlow.srv_deliver` -/
theorem srv_deliver_mask {c : Cli.State} {v : Srv.State} {X Y : List (Ser.Packet × Msg)} (now : Nat) (mask : List Bool)
    (h : InStepP c v X Y) :
    ∃ (A : Acks) (v1 : Srv.State) (since' : Nat), A.ok ∧ Emits v.ser v1.ser A.pairs ∧ v1 = { v with ser := v1.ser } ∧
      ∀ sF rs Z, SrvSteps.steps { v1 with since := since' } now (msgs (keepSel mask X)) = .ok (sF, rs) → Emits v1.ser sF.ser Z →
        ∃ vN, Srv.handleInput v now (wire (keepSel mask X)) = (vN, .ok (A.outS ++ rs)) ∧ vN = { sF with des := vN.des } ∧
          InStepP c vN [] (Y ++ A.pairs ++ Z) := by
  obtain ⟨ser0, hl, he0⟩ := h.cs
  obtain ⟨ser1, hl1, he1⟩ := h.sc
  obtain ⟨core', hfeed, hlink'⟩ := linked_emits hl he0 mask
  have hbuf : v.des.buf = [] := by obtain ⟨_, _, _, hb⟩ := hl; exact hb
  cases hk : ackStep v.window v.since (wire (keepSel mask X)).length with
  | mk since' ack =>
    cases ack with
    | none =>
      refine ⟨[], v, since', ⟨by simp, fun _ h => by cases h⟩, Emits.nil _, rfl, ?_⟩
      intro sF rs Z hst heZ
      have h2 : (ackStep v.window v.since (wire (keepSel mask X)).length).2 = none := by rw [hk]
      have hd := srv_recv_core now (v := { v with since := since' }) hbuf hfeed hst
      refine ⟨({ sF with des := { core := core', buf := [] } } : Srv.State), ?_, rfl, ⟨c.ser, hlink', Emits.nil _⟩, ⟨ser1, hl1, ?_⟩⟩
      · rw [C15.C15_server_input_is_drain v now _ h2, hk]; simpa [Acks.outS] using hd
      · simpa [Acks.pairs] using he1.trans heZ
    | some n =>
      have hn := ackStep_lt _ _ _ n since' hk
      obtain ⟨v1, p, hsend⟩ := srv_send_total v h.vpos (m := .ack n) (typ := 3) (body := be32 n) rfl (by simp [be32]) (epoch now) 0 false false
      obtain ⟨typ, body, hp, hem, hv1⟩ := srv_send_exact hsend trivial (epoch_lt now) (by decide)
      simp only [toPayload, Except.ok.injEq, Prod.mk.injEq] at hp
      obtain ⟨rfl, rfl⟩ := hp
      refine ⟨[(p, n, now)], v1, since', ⟨by simp, fun x hx => by simp at hx; rw [hx]; exact hn⟩, by simpa [Acks.pairs, ackMsg] using hem, hv1, ?_⟩
      intro sF rs Z hst heZ
      have h2 : (ackStep v.window v.since (wire (keepSel mask X)).length).2 = some n := by rw [hk]
      have hfeed1 : Des.feed ({ v1 with since := since' } : Srv.State).des (wire (keepSel mask X)) =
          { core := core', buf := [], msgs := msgs (keepSel mask X), err := none } := by
        show Des.feed v1.des _ = _; rw [hv1]; exact hfeed
      have hd := srv_recv_core now (v := { v1 with since := since' }) (by show v1.des.buf = []; rw [hv1]; exact hbuf) hfeed1 hst
      refine ⟨({ sF with des := { core := core', buf := [] } } : Srv.State), ?_, rfl, ⟨c.ser, hlink', Emits.nil _⟩, ⟨ser1, hl1, ?_⟩⟩
      · rw [srv_input_with_ack v v1 now _ n p h2 hsend, hk, hd]; simp [SrvPart.mapOk, Acks.outS]
      · rw [List.append_assoc]
        exact he1.trans ((by simpa [Acks.pairs, ackMsg] using hem : Emits v.ser v1.ser (Acks.pairs [(p, n, now)])).trans heZ)

theorem cli_deliver_mask {c : Cli.State} {v : Srv.State} {X Y : List (Ser.Packet × Msg)} (now : Nat) (mask : List Bool)
    (h : InStepP c v X Y) :
    ∃ (A : Acks) (c1 : Cli.State) (since' : Nat), A.ok ∧ Emits c.ser c1.ser A.pairs ∧ c1 = { c with ser := c1.ser } ∧
      ∀ sF rs Z, CliSteps.steps { c1 with since := since' } now (msgs (keepSel mask Y)) = .ok (sF, rs) → Emits c1.ser sF.ser Z →
        ∃ cN, Cli.handleInput c now (wire (keepSel mask Y)) = (cN, .ok (A.outC ++ rs)) ∧ cN = { sF with des := cN.des } ∧
          InStepP cN v (X ++ A.pairs ++ Z) [] := by
  obtain ⟨ser0, hl, he0⟩ := h.cs
  obtain ⟨ser1, hl1, he1⟩ := h.sc
  obtain ⟨core', hfeed, hlink'⟩ := linked_emits hl1 he1 mask
  have hbuf : c.des.buf = [] := by obtain ⟨_, _, _, hb⟩ := hl1; exact hb
  cases hk : ackStep c.window c.since (wire (keepSel mask Y)).length with
  | mk since' ack =>
    cases ack with
    | none =>
      refine ⟨[], c, since', ⟨by simp, fun _ h => by cases h⟩, Emits.nil _, rfl, ?_⟩
      intro sF rs Z hst heZ
      have h2 : (ackStep c.window c.since (wire (keepSel mask Y)).length).2 = none := by rw [hk]
      have hd := cli_recv_core now (c := { c with since := since' }) hbuf hfeed hst
      refine ⟨({ sF with des := { core := core', buf := [] } } : Cli.State), ?_, rfl, ⟨ser0, hl, ?_⟩, ⟨v.ser, hlink', Emits.nil _⟩⟩
      · rw [C15.C15_client_input_is_drain c now _ h2, hk]; simpa [Acks.outC] using hd
      · simpa [Acks.pairs] using he0.trans heZ
    | some n =>
      have hn := ackStep_lt _ _ _ n since' hk
      obtain ⟨c1, p, hsend⟩ := cli_send_total c h.cpos (m := .ack n) (typ := 3) (body := be32 n) rfl (by simp [be32]) (epoch now) 0 false
      obtain ⟨typ, body, hp, hem, hc1⟩ := cli_send_exact hsend trivial (epoch_lt now) (by decide)
      simp only [toPayload, Except.ok.injEq, Prod.mk.injEq] at hp
      obtain ⟨rfl, rfl⟩ := hp
      refine ⟨[(p, n, now)], c1, since', ⟨by simp, fun x hx => by simp at hx; rw [hx]; exact hn⟩, by simpa [Acks.pairs, ackMsg] using hem, hc1, ?_⟩
      intro sF rs Z hst heZ
      have h2 : (ackStep c.window c.since (wire (keepSel mask Y)).length).2 = some n := by rw [hk]
      have hfeed1 : Des.feed ({ c1 with since := since' } : Cli.State).des (wire (keepSel mask Y)) =
          { core := core', buf := [], msgs := msgs (keepSel mask Y), err := none } := by
        show Des.feed c1.des _ = _; rw [hc1]; exact hfeed
      have hd := cli_recv_core now (c := { c1 with since := since' }) (by show c1.des.buf = []; rw [hc1]; exact hbuf) hfeed1 hst
      refine ⟨({ sF with des := { core := core', buf := [] } } : Cli.State), ?_, rfl, ⟨ser0, hl, ?_⟩, ⟨v.ser, hlink', Emits.nil _⟩⟩
      · rw [cli_input_with_ack c c1 now _ n p h2 hsend, hk, hd]; simp [CliPart.mapOk, Acks.outC]
      · rw [List.append_assoc]
        exact he0.trans ((by simpa [Acks.pairs, ackMsg] using hem : Emits c.ser c1.ser (Acks.pairs [(p, n, now)])).trans heZ)

/-- a mask that keeps the first `n` packets whatever their flag -/
theorem keepSel_prefix : ∀ (xs ys : List (Ser.Packet × Msg)) (mask : List Bool),
    keepSel (List.replicate xs.length true ++ mask) (xs ++ ys) = xs ++ keepSel mask ys
  | [], ys, mask => by simp
  | (p, m) :: xs, ys, mask => by
    have ih := keepSel_prefix xs ys mask
    simp only [List.length_cons, List.replicate_succ, List.cons_append, keepSel, List.headD_cons, Bool.not_true, Bool.and_false,
      List.tail_cons, ih]
    rfl

theorem keepSel_sub' {xs : List (Ser.Packet × Msg)} {mask : List Bool} {x : Ser.Packet × Msg} (h : x ∈ keepSel mask xs) : x ∈ xs :=
  Interop.keepSel_sub h

/-- **media on a publishing pair through `handle_input`, any droppable subset omitted**: the pending
    acknowledgements travel first and are kept; of the item packets, any subset of the droppable ones is left
    out; the server raises exactly the delivered items, in order, once each -/
theorem publish_items_in_mask {c c' : Cli.State} {v : Srv.State} {sid : Nat} {app key : Bytes} {mode : Srv.PublishMode} {A B : Acks}
    (hr : PublishReadyP c v sid app key mode A B) (items : List Interop.Item) (ps : List Ser.Packet) (now : Nat) (mask : List Bool)
    (hts : ∀ it ∈ items, it.ts < 4294967296) (hpub : Interop.publishAll c items = some (c', ps)) :
    let kept := keepSel mask (ps.zip (items.map (Interop.Item.msg sid)))
    ∃ (A' : Acks) (v' : Srv.State), A'.ok ∧
      Srv.handleInput v now (A.bytes ++ wire kept) = (v', .ok (A'.outS ++ A.evS ++ (msgs kept).flatMap (Interop.evOf app key))) ∧
      PublishReadyP c' v' sid app key mode [] (B ++ A') := by
  intro kept
  obtain ⟨hem, _, hst', hact'⟩ := Interop.publishAll_emits items c c' ps sid hr.cst hr.cact hr.sid32 hts hpub
  have hdes := publishAll_des items c c' ps sid hr.cst hr.cact hr.sid32 hts hpub
  have hin1 := hr.inStep.client_emits hem hdes
  obtain ⟨A', v1, since1, hA', heA', hv1, hrest⟩ := srv_deliver_mask now (List.replicate A.pairs.length true ++ mask) hin1
  rw [keepSel_prefix] at hrest
  have hmem : ∀ m ∈ msgs kept, ∃ it ∈ items, m = it.msg sid := by
    intro m hm
    simp only [msgs, List.mem_map] at hm
    obtain ⟨x, hx, rfl⟩ := hm
    have := (List.of_mem_zip (keepSel_sub' hx)).2
    simp only [List.mem_map] at this
    obtain ⟨it, hit, he⟩ := this
    exact ⟨it, hit, he.symm⟩
  have hplain := srv_steps_plain ({ v1 with since := since1 } : Srv.State) now (Interop.evOf app key) (msgs kept)
    (fun m hm => by
      obtain ⟨it, _, rfl⟩ := hmem m hm
      exact srv_step_item _ now sid it app key mode (by show v1.connected = true; rw [hv1]; exact hr.vconn)
        (by show v1.app = _; rw [hv1]; exact hr.vapp) (by show mapGet sid v1.streams = _; rw [hv1]; exact hr.vstream))
  have hstep : SrvSteps.steps ({ v1 with since := since1 } : Srv.State) now (msgs (A.pairs ++ kept)) =
      .ok (({ v1 with since := since1 } : Srv.State), A.evS ++ (msgs kept).flatMap (Interop.evOf app key)) := by
    rw [msgs_append, srv_steps_acks now _ A _ hr.alt, hplain]
  obtain ⟨v', hd, hv', hin2⟩ := hrest ({ v1 with since := since1 } : Srv.State) _ [] hstep (Emits.nil _)
  rw [wire_append, wire_pairs] at hd
  simp only [List.append_nil] at hin2
  refine ⟨A', v', hA', (by rw [hd, List.append_assoc]), ?_, Acks.lt_nil, Acks.lt_append hr.blt hA'.2, hst', hact', hr.sid32, ?_, ?_, ?_⟩
  · rw [pairs_append]; simpa [Acks.pairs] using hin2
  · rw [hv', hv1]; exact hr.vconn
  · rw [hv', hv1]; exact hr.vapp
  · rw [hv', hv1]; exact hr.vstream

/-- **media on a playing pair through `handle_input`, any droppable subset omitted** -/
theorem play_items_in_mask {c : Cli.State} {v v' : Srv.State} {sid : Nat} {app key : Bytes} {A B : Acks}
    (hr : PlayReadyP c v sid app key A B) (items : List Interop.Item) (ps : List Ser.Packet) (now : Nat) (mask : List Bool)
    (hts : ∀ it ∈ items, it.ts < 4294967296) (hsend : Interop.sendAll v sid items = some (v', ps)) :
    let kept := keepSel mask (ps.zip (items.map (Interop.Item.msg sid)))
    ∃ (B' : Acks) (c' : Cli.State), B'.ok ∧
      Cli.handleInput c now (B.bytes ++ wire kept) = (c', .ok (B'.outC ++ B.evC ++ (msgs kept).flatMap Interop.evOfC)) ∧
      PlayReadyP c' v' sid app key (A ++ B') [] := by
  intro kept
  have hem := Interop.sendAll_emits items v v' ps sid hr.sid32 hts hsend
  have hf := sendAll_frame items v v' ps sid hsend
  have hin1 := hr.inStep.server_emits hem (show v'.des = v.des by rw [hf])
  obtain ⟨B', c1, since1, hB', heB', hc1, hrest⟩ := cli_deliver_mask now (List.replicate B.pairs.length true ++ mask) hin1
  rw [keepSel_prefix] at hrest
  have hmem : ∀ m ∈ msgs kept, ∃ it ∈ items, m = it.msg sid := by
    intro m hm
    simp only [msgs, List.mem_map] at hm
    obtain ⟨x, hx, rfl⟩ := hm
    have := (List.of_mem_zip (keepSel_sub' hx)).2
    simp only [List.mem_map] at this
    obtain ⟨it, hit, he⟩ := this
    exact ⟨it, hit, he.symm⟩
  have hplain := cli_steps_plain ({ c1 with since := since1 } : Cli.State) now Interop.evOfC (msgs kept)
    (fun m hm => by
      obtain ⟨it, _, rfl⟩ := hmem m hm
      exact cli_step_item _ now sid it (by show c1.st = _; rw [hc1]; exact hr.cst) (by show c1.activeStream = _; rw [hc1]; exact hr.cact))
  have hstep : CliSteps.steps ({ c1 with since := since1 } : Cli.State) now (msgs (B.pairs ++ kept)) =
      .ok (({ c1 with since := since1 } : Cli.State), B.evC ++ (msgs kept).flatMap Interop.evOfC) := by
    rw [msgs_append, cli_steps_acks now _ B _ hr.blt, hplain]
  obtain ⟨c', hd, hc', hin2⟩ := hrest ({ c1 with since := since1 } : Cli.State) _ [] hstep (Emits.nil _)
  rw [wire_append, wire_pairs] at hd
  simp only [List.append_nil] at hin2
  refine ⟨B', c', hB', (by rw [hd, List.append_assoc]), ?_, Acks.lt_append hr.alt hB'.2, Acks.lt_nil, ?_, ?_, hr.sid32, ?_, ?_, ?_⟩
  · rw [pairs_append]; simpa [Acks.pairs] using hin2
  · rw [hc', hc1]; exact hr.cst
  · rw [hc', hc1]; exact hr.cact
  · rw [hf]; exact hr.vconn
  · rw [hf]; exact hr.vapp
  · rw [hf]; exact hr.vstream

end Rml.AckDrop
