/-
Client session: every function hands to the serializer, in the order of the packets it returns, only
well-formed messages, and keeps the invariant that makes that possible.
-/
import Rml.Lemmas.Emit
import Rml.Lemmas.DesWF
import Rml.Model.ClientSession
namespace Rml.CliEmit
open Rml Rml.Bytes Rml.Chunk Rml.Amf0 Rml.Msgs Rml.Sess Rml.Emit

theorem toU32_lt (b : Nat) : F64.toU32 b < 4294967296 := by
  unfold F64.toU32
  split
  · omega
  · split
    · omega
    · split
      · omega
      · split
        · omega
        · simp only
          split
          · omega
          · rename_i h1 h2 h3 h4 h5
            have hm : F64.mant b < 4503599627370496 := by unfold F64.mant; omega
            have he : F64.expo b - 1023 < 32 := by omega
            generalize F64.expo b - 1023 = e at he ⊢
            have h32 : (4294967296 : Nat) = 2 ^ 32 := by decide
            have h53 : (9007199254740992 : Nat) = 2 ^ 53 := by decide
            have hpow : (2 : Nat) ^ (52 - e) * 4294967296 ≥ 9007199254740992 := by
              have : 52 - e + 32 ≥ 53 := by omega
              rw [h32, h53, ← Nat.pow_add]
              exact Nat.pow_le_pow_right (by omega) this
            apply Nat.div_lt_of_lt_mul
            omega

def outs (rs : List Cli.Res) : List Ser.Packet :=
  rs.filterMap fun r => match r with
    | .out p => some p
    | _ => none

def Em (s s' : Cli.State) (rs : List Cli.Res) : Prop :=
  ∃ xs, Emits s.ser s'.ser xs ∧ xs.map (·.1) = outs rs ∧
    ∀ x ∈ xs, FromRtmp x.2 ∨ (x.2.typ = 1 ∧ x.2.msid = 0)

def Inv (s : Cli.State) : Prop :=
  Des.CoreOK s.des.core ∧ ∀ sid, s.activeStream = some sid → sid < 4294967296

theorem em_same {s s' : Cli.State} {rs : List Cli.Res} (h1 : s'.ser = s.ser) (h2 : outs rs = []) : Em s s' rs :=
  ⟨[], by rw [h1]; exact Emits.nil _, by rw [h2]; rfl, fun _ h => by cases h⟩

theorem em_trans {a b c : Cli.State} {r1 r2 : List Cli.Res} (h1 : Em a b r1) (h2 : Em b c r2) : Em a c (r1 ++ r2) := by
  obtain ⟨x1, e1, m1, g1⟩ := h1
  obtain ⟨x2, e2, m2, g2⟩ := h2
  refine ⟨x1 ++ x2, e1.trans e2, ?_, ?_⟩
  · simp only [List.map_append, m1, m2, outs, List.filterMap_append]
  · intro x hx; rcases List.mem_append.mp hx with h | h
    · exact g1 x h
    · exact g2 x h

theorem epoch_lt (now : Nat) : epoch now < 4294967296 := Nat.mod_lt _ (by decide)

theorem em_send {s s' : Cli.State} {m : RtmpMsg} {ts msid : Nat} {d : Bool} {p : Ser.Packet}
    (h : Cli.send s m ts msid d = .ok (s', p)) (hs : Sendable m) (hts : ts < 4294967296)
    (hmsid : msid < 4294967296) :
    Em s s' [.out p] ∧ s' = { s with ser := s'.ser } := by
  unfold Cli.send at h
  cases hm : sendMsg s.ser m ts msid false d with
  | error e => simp [hm] at h
  | ok r =>
    obtain ⟨ser', p'⟩ := r
    simp only [hm, Except.ok.injEq, Prod.mk.injEq] at h
    obtain ⟨h1, h2⟩ := h
    subst h1; subst h2
    obtain ⟨x, he, hf, _, _⟩ := sendMsg_emits hm hs hts hmsid
    exact ⟨⟨[(p', x)], he, rfl, fun y hy => by simp at hy; rw [hy]; exact Or.inl hf⟩, rfl⟩

theorem inv_frame {s s' : Cli.State} (hd : s'.des = s.des) (hr : s'.activeStream = s.activeStream) (h : Inv s) :
    Inv s' := by
  unfold Inv; rw [hd, hr]; exact h

theorem inv_active {s s' : Cli.State} {sid : Nat} (hd : s'.des = s.des) (ha : s'.activeStream = some sid)
    (hs : sid < 4294967296) (h : Inv s) : Inv s' := by
  refine ⟨by rw [hd]; exact h.1, fun x hx => ?_⟩
  rw [ha] at hx; simp only [Option.some.injEq] at hx; rw [← hx]; exact hs

def Step (s s' : Cli.State) (rs : List Cli.Res) : Prop := Em s s' rs ∧ (Inv s → Inv s')

theorem step_send {s s' : Cli.State} {m : RtmpMsg} {ts msid : Nat} {d : Bool} {p : Ser.Packet}
    (h : Cli.send s m ts msid d = .ok (s', p)) (hs : Sendable m) (hts : ts < 4294967296)
    (hmsid : msid < 4294967296) : Step s s' [.out p] := by
  obtain ⟨he, hf⟩ := em_send h hs hts hmsid
  exact ⟨he, fun hi => inv_frame (by rw [hf]) (by rw [hf]) hi⟩

theorem em_cons {a b c : Cli.State} {p : Ser.Packet} {rs : List Cli.Res} (h1 : Em a b [.out p]) (h2 : Em b c rs) :
    Em a c (.out p :: rs) := em_trans h1 h2

theorem step_nil (s : Cli.State) : Step s s [] := ⟨em_same rfl rfl, fun h => h⟩
theorem step_ev (s : Cli.State) (e : Cli.Event) : Step s s [.ev e] := ⟨em_same rfl rfl, fun h => h⟩
theorem step_unh (s : Cli.State) (m : Msg) : Step s s [.unhandled m] := ⟨em_same rfl rfl, fun h => h⟩

theorem step_handleResult {s s' : Cli.State} {now tid : Nat} {obj : Val} {args : List Val} {rs : List Cli.Res}
    (h : Cli.handleResult s now tid obj args = .ok (s', rs)) : Step s s' rs := by
  have z : (0 : Nat) < 4294967296 := by omega
  unfold Cli.handleResult at h
  simp only at h
  cases hg : mapGet (F64.toU32 tid) s.txns with
  | none =>
    simp only [hg, Except.ok.injEq, Prod.mk.injEq] at h; rw [← h.1, ← h.2]; exact step_ev _ _
  | some txn =>
    simp only [hg] at h
    cases txn with
    | connection app =>
      simp only at h
      split at h
      · simp at h
      · rename_i s2 p1 hs1
        have st1 := step_send hs1 trivial (epoch_lt now) z
        cases hcs : Ser.setMaxChunkSize s2.ser s.cfg.chunkSize 0 with
        | err e => simp [hcs] at h
        | hang => simp [hcs] at h
        | ok q =>
          obtain ⟨ser3, p2⟩ := q
          simp only [hcs, Except.ok.injEq, Prod.mk.injEq] at h
          rw [← h.1, ← h.2]
          have e2 := Emits.setcs hcs z
          obtain ⟨xs, ex, mx, gx⟩ := st1.1
          refine ⟨⟨xs ++ [(p2, _)], ex.trans e2, ?_, ?_⟩, fun hi => ?_⟩
          · simp only [List.map_append, mx]; rfl
          · intro x hx
            rcases List.mem_append.mp hx with hh | hh
            · exact gx x hh
            · simp at hh; rw [hh]; exact Or.inr ⟨rfl, rfl⟩
          · have := st1.2 (inv_frame (s := s) rfl rfl hi)
            exact ⟨this.1, this.2⟩
    | createStream purpose =>
      simp only at h
      match args, h with
      | [], h => simp at h
      | .number n :: rest, h =>
        simp only at h
        have hsid := toU32_lt n
        cases purpose with
        | play k =>
          simp only at h
          split at h
          · simp at h
          · rename_i s3 p1 hs1
            have st1 := step_send hs1 trivial (epoch_lt now) z
            split at h
            · simp at h
            · rename_i s4 p2 hs2
              have st2 := step_send hs2 trivial (epoch_lt now) hsid
              simp only [Except.ok.injEq, Prod.mk.injEq] at h
              rw [← h.1, ← h.2]
              exact ⟨em_cons st1.1 st2.1, fun hi => st2.2 (st1.2 (inv_active (s := s) rfl rfl hsid hi))⟩
        | publish k t =>
          simp only at h
          split at h
          · simp at h
          · rename_i s3 p1 hs1
            have st1 := step_send hs1 trivial (epoch_lt now) hsid
            simp only [Except.ok.injEq, Prod.mk.injEq] at h
            rw [← h.1, ← h.2]
            exact ⟨st1.1, fun hi => st1.2 (inv_active (s := s) rfl rfl hsid hi)⟩
      | .boolean _ :: _, h => simp at h
      | .str _ :: _, h => simp at h
      | .object _ :: _, h => simp at h
      | .array _ :: _, h => simp at h
      | .null :: _, h => simp at h
      | .undefined :: _, h => simp at h

theorem inv_errState (s : Cli.State) (tid : Nat) (args : List Val) (hi : Inv s) :
    Inv (Cli.handleResultErrState s tid args) := by
  unfold Cli.handleResultErrState
  simp only
  (repeat' split) <;> exact inv_frame rfl rfl hi

theorem step_handleError {s s' : Cli.State} {tid : Nat} {obj : Val} {args : List Val} {rs : List Cli.Res}
    (h : Cli.handleError s tid obj args = .ok (s', rs)) : Step s s' rs := by
  unfold Cli.handleError at h
  simp only at h
  (repeat' split at h)
  all_goals first
    | (simp at h; done)
    | (simp only [Except.ok.injEq, Prod.mk.injEq] at h
       obtain ⟨h1, h2⟩ := h
       subst h1; subst h2
       exact ⟨em_same rfl rfl, fun hi => inv_frame rfl rfl hi⟩)

theorem step_handleOnStatus {s s' : Cli.State} {args : List Val} {rs : List Cli.Res}
    (h : Cli.handleOnStatus s args = .ok (s', rs)) : Step s s' rs := by
  unfold Cli.handleOnStatus at h
  (repeat' split at h)
  all_goals first
    | (simp at h; done)
    | (simp only [Except.ok.injEq, Prod.mk.injEq] at h
       obtain ⟨h1, h2⟩ := h
       subst h1; subst h2
       exact ⟨em_same rfl rfl, fun hi => inv_frame rfl rfl hi⟩)

theorem outs_handleData (s : Cli.State) (vals : List Val) (sid : Nat) : outs (Cli.handleData s vals sid) = [] := by
  unfold Cli.handleData
  (repeat' split) <;> rfl

theorem outs_handleMedia {s : Cli.State} {v : Bool} {sid : Nat} {d : Bytes} {ts : Nat} {rs : List Cli.Res}
    (h : Cli.handleMedia s v sid d ts = .ok rs) : outs rs = [] := by
  unfold Cli.handleMedia at h
  (repeat' split at h)
  all_goals first
    | (simp at h; done)
    | (simp only [Except.ok.injEq] at h; rw [← h]; rfl)

/-- one decoded message: the invariant survives whatever happens; results extend the history -/
theorem handleMessage_step {s s' : Cli.State} {now : Nat} {p : Msg} {m : RtmpMsg} {r : Except Err (List Cli.Res)}
    (hi : Inv s) (h : Cli.handleMessage s now p m = (s', r)) :
    Inv s' ∧ (∀ rs, r = .ok rs → Em s s' rs) := by
  have z : (0 : Nat) < 4294967296 := by omega
  have same : ∀ rs0 : List Cli.Res, outs rs0 = [] → (s, (Except.ok rs0 : Except Err (List Cli.Res))) = (s', r) →
      Inv s' ∧ (∀ rs, r = .ok rs → Em s s' rs) := by
    intro rs0 ho hh
    simp only [Prod.mk.injEq] at hh
    rw [← hh.1, ← hh.2]
    exact ⟨hi, fun rs hr => by simp only [Except.ok.injEq] at hr; rw [← hr]; exact em_same rfl ho⟩
  unfold Cli.handleMessage at h
  cases m with
  | ack n => exact same _ rfl h
  | amf0Command name tid obj args =>
    simp only at h
    split at h
    · split at h
      · rename_i s2 rs2 hr
        simp only [Prod.mk.injEq] at h; rw [← h.1, ← h.2]
        have st := step_handleResult hr
        exact ⟨st.2 hi, fun rs hh => by simp only [Except.ok.injEq] at hh; rw [← hh]; exact st.1⟩
      · simp only [Prod.mk.injEq] at h; rw [← h.1, ← h.2]
        exact ⟨inv_errState s tid args hi, fun rs hh => by cases hh⟩
    · split at h
      · split at h
        · rename_i s2 rs2 hr
          simp only [Prod.mk.injEq] at h; rw [← h.1, ← h.2]
          have st := step_handleError hr
          exact ⟨st.2 hi, fun rs hh => by simp only [Except.ok.injEq] at hh; rw [← hh]; exact st.1⟩
        · simp only [Prod.mk.injEq] at h; rw [← h.1, ← h.2]
          exact ⟨inv_frame rfl rfl hi, fun rs hh => by cases hh⟩
      · split at h
        · split at h
          · rename_i s2 rs2 hr
            simp only [Prod.mk.injEq] at h; rw [← h.1, ← h.2]
            have st := step_handleOnStatus hr
            exact ⟨st.2 hi, fun rs hh => by simp only [Except.ok.injEq] at hh; rw [← hh]; exact st.1⟩
          · simp only [Prod.mk.injEq] at h; rw [← h.1, ← h.2]
            exact ⟨hi, fun rs hh => by cases hh⟩
        · exact same _ rfl h
  | amf0Data vals => exact same _ (outs_handleData _ _ _) h
  | audio d =>
    simp only [Prod.mk.injEq] at h; rw [← h.1, ← h.2]
    refine ⟨hi, fun rs hh => ?_⟩
    cases hm : Cli.handleMedia s false p.msid d p.ts with
    | error e => simp [hm] at hh
    | ok r0 => simp only [hm, Except.ok.injEq] at hh; rw [← hh]; exact em_same rfl (outs_handleMedia hm)
  | video d =>
    simp only [Prod.mk.injEq] at h; rw [← h.1, ← h.2]
    refine ⟨hi, fun rs hh => ?_⟩
    cases hm : Cli.handleMedia s true p.msid d p.ts with
    | error e => simp [hm] at hh
    | ok r0 => simp only [hm, Except.ok.injEq] at hh; rw [← hh]; exact em_same rfl (outs_handleMedia hm)
  | userControl ev a b ts =>
    simp only at h
    cases ev <;> simp only at h
    all_goals first
      | exact same _ rfl h
      | (split at h
         · simp only [Prod.mk.injEq] at h; rw [← h.1, ← h.2]; exact ⟨hi, fun rs hh => by cases hh⟩
         · rename_i s2 pk hs
           simp only [Prod.mk.injEq] at h; rw [← h.1, ← h.2]
           have st := step_send hs trivial (epoch_lt now) z
           exact ⟨st.2 hi, fun rs hh => by simp only [Except.ok.injEq] at hh; rw [← hh]; exact st.1⟩)
  | windowAck n =>
    simp only [Prod.mk.injEq] at h; rw [← h.1, ← h.2]
    exact ⟨inv_frame rfl rfl hi, fun rs hh => by simp only [Except.ok.injEq] at hh; rw [← hh]; exact em_same rfl rfl⟩
  | setChunkSize n =>
    simp only at h
    split at h
    · simp only [Prod.mk.injEq] at h; rw [← h.1, ← h.2]; exact ⟨hi, fun rs hh => by cases hh⟩
    · rename_i c hc
      simp only [Prod.mk.injEq] at h; rw [← h.1, ← h.2]
      exact ⟨⟨Des.setMaxChunkSize_ok hi.1 hc, hi.2⟩, fun rs hh => by
        simp only [Except.ok.injEq] at hh; rw [← hh]; exact em_same rfl rfl⟩
  | abort _ => exact same _ rfl h
  | setPeerBandwidth _ _ => exact same _ rfl h
  | unknown _ _ => exact same _ rfl h

theorem msgLoop_step (f : Nat) : ∀ (s s' s0 : Cli.State) (now : Nat) (acc : List Cli.Res) (r : Except Err (List Cli.Res)),
    Inv s → Cli.msgLoop f s now acc = (s', r) →
    Inv s' ∧ (∀ rs, r = .ok rs → Em s0 s acc → Em s0 s' rs) := by
  induction f with
  | zero =>
    intro s s' s0 now acc r hi h
    simp only [Cli.msgLoop, Prod.mk.injEq] at h
    rw [← h.1, ← h.2]; exact ⟨hi, fun rs hr => by cases hr⟩
  | succ f ih =>
    intro s s' s0 now acc r hi h
    simp only [Cli.msgLoop] at h
    obtain ⟨hc1, hm1⟩ := Des.next_ok s.des hi.1
    have hi1 : Inv { s with des := { core := (Des.next s.des).core, buf := (Des.next s.des).buf } } := ⟨hc1, hi.2⟩
    split at h
    · simp only [Prod.mk.injEq] at h; rw [← h.1, ← h.2]; exact ⟨hi1, fun rs hr => by cases hr⟩
    · split at h
      · simp only [Prod.mk.injEq] at h; rw [← h.1, ← h.2]
        exact ⟨hi1, fun rs hr he => by simp only [Except.ok.injEq] at hr; rw [← hr]; exact he⟩
      · rename_i p hp
        split at h
        · simp only [Prod.mk.injEq] at h; rw [← h.1, ← h.2]; exact ⟨hi1, fun rs hr => by cases hr⟩
        · rename_i m hm
          split at h
          · rename_i s2 e hmsg
            simp only [Prod.mk.injEq] at h; rw [← h.1, ← h.2]
            exact ⟨(handleMessage_step hi1 hmsg).1, fun rs hr => by cases hr⟩
          · rename_i s2 rs2 hmsg
            obtain ⟨hi2, hem2⟩ := handleMessage_step hi1 hmsg
            obtain ⟨hi', hem⟩ := ih s2 s' s0 now _ r hi2 h
            exact ⟨hi', fun rs hr he => hem rs hr (em_trans (show Em s0 _ acc from he) (hem2 rs2 rfl))⟩

theorem handleInput_step {s s' : Cli.State} {now : Nat} {bytes : Bytes} {r : Except Err (List Cli.Res)}
    (hi : Inv s) (h : Cli.handleInput s now bytes = (s', r)) :
    Inv s' ∧ (∀ rs, r = .ok rs → Em s s' rs) := by
  unfold Cli.handleInput at h
  simp only at h
  have hbuf : Inv { s with des := { s.des with buf := s.des.buf ++ bytes } } := ⟨hi.1, hi.2⟩
  split at h
  · have key := fun hinv => msgLoop_step _ _ s' s now [] r hinv h
    obtain ⟨hi', hem⟩ := key ⟨hi.1, hi.2⟩
    exact ⟨hi', fun rs hr => hem rs hr (em_same rfl rfl)⟩
  · split at h
    · simp only [Prod.mk.injEq] at h; rw [← h.1, ← h.2]
      exact ⟨⟨hi.1, hi.2⟩, fun rs hr => by cases hr⟩
    · rename_i n hack s1 p hs
      have hst := step_send hs trivial (epoch_lt now) (by show (0 : Nat) < 4294967296; omega)
      have key := fun hinv => msgLoop_step _ _ s' s now [.out p] r hinv h
      have hi1 := hst.2 hbuf
      obtain ⟨hi', hem⟩ := key ⟨hi1.1, hi1.2⟩
      exact ⟨hi', fun rs hr => hem rs hr hst.1⟩

/-- application calls on a client session -/
inductive Op where
  | input (now : Nat) (bytes : Bytes)
  | connect (now : Nat) (app : Bytes)
  | request (now : Nat) (p : Cli.Purpose)
  | stop (now : Nat) (play : Bool)
  | ping (now : Nat)
  | metadata (now : Nat) (m : Metadata)
  | media (video : Bool) (data : Bytes) (ts : Nat) (drop : Bool)

/-- what the Rust types guarantee about the arguments -/
def Op.WF : Op → Prop
  | .media _ _ ts _ => ts < 4294967296
  | _ => True

def one (x : Cli.State × Except Err Cli.Res) : Cli.State × Except Err (List Cli.Res) :=
  (x.1, match x.2 with
        | .ok r => .ok [r]
        | .error e => .error e)

def apply (s : Cli.State) : Op → Cli.State × Except Err (List Cli.Res)
  | .input now bytes => Cli.handleInput s now bytes
  | .connect now app => one (Cli.requestConnection s now app)
  | .request now p => one (Cli.requestStream s now p)
  | .stop now play => Cli.stop s now play
  | .ping now =>
    let x := Cli.sendPing s now
    (x.1, match x.2 with
          | .ok (p, _) => .ok [.out p]
          | .error e => .error e)
  | .metadata now m => one (Cli.publishMetadata s now m)
  | .media v d ts drop => one (Cli.publishMedia s v d ts drop)

theorem guard_sid {s : Cli.State} {sid : Nat} (hi : Inv s) (h : Cli.publishGuard s = .ok sid) : sid < 4294967296 := by
  unfold Cli.publishGuard at h
  split at h
  · simp at h
  · split at h
    · simp at h
    · rename_i a ha
      simp only [Except.ok.injEq] at h
      rw [← h]; exact hi.2 a ha

theorem apply_step {s s' : Cli.State} {op : Op} {r : Except Err (List Cli.Res)} (hi : Inv s) (hw : op.WF)
    (h : apply s op = (s', r)) : Inv s' ∧ (∀ rs, r = .ok rs → Em s s' rs) := by
  have z : (0 : Nat) < 4294967296 := by omega
  cases op with
  | input now bytes => exact handleInput_step hi h
  | connect now app =>
    simp only [apply, one, Cli.requestConnection] at h
    split at h
    · simp only [Prod.mk.injEq] at h; rw [← h.1, ← h.2]; exact ⟨hi, fun rs hr => by cases hr⟩
    · split at h
      · simp only [Prod.mk.injEq] at h; rw [← h.1, ← h.2]
        exact ⟨inv_frame rfl rfl hi, fun rs hr => by cases hr⟩
      · rename_i s2 p hs
        simp only [Prod.mk.injEq] at h; rw [← h.1, ← h.2]
        have hst := step_send hs trivial (epoch_lt now) z
        exact ⟨hst.2 (inv_frame rfl rfl hi), fun rs hr => by simp only [Except.ok.injEq] at hr; rw [← hr]; exact hst.1⟩
  | request now pu =>
    simp only [apply, one, Cli.requestStream] at h
    split at h
    · simp only [Prod.mk.injEq] at h; rw [← h.1, ← h.2]; exact ⟨hi, fun rs hr => by cases hr⟩
    · split at h
      · simp only [Prod.mk.injEq] at h; rw [← h.1, ← h.2]
        exact ⟨inv_frame rfl rfl hi, fun rs hr => by cases hr⟩
      · rename_i s2 p hs
        simp only [Prod.mk.injEq] at h; rw [← h.1, ← h.2]
        have hst := step_send hs trivial (epoch_lt now) z
        exact ⟨hst.2 (inv_frame rfl rfl hi), fun rs hr => by simp only [Except.ok.injEq] at hr; rw [← hr]; exact hst.1⟩
  | stop now play =>
    have hnone : Inv { s with st := .connected, activeStream := none } := ⟨hi.1, fun sid hh => by cases hh⟩
    have body : ∀ (active : Prop) [Decidable active],
        (if ¬ active then (s, (Except.ok [] : Except Err (List Cli.Res))) else
          match s.activeStream with
          | none => (({ s with st := .connected, activeStream := none } : Cli.State), Except.ok [])
          | some sid =>
            match Cli.send { s with st := .connected, activeStream := none }
                (.amf0Command (str "deleteStream") 0 .null [.number (F64.ofU32 sid)]) (epoch now) sid with
            | .error e => (({ s with st := .connected, activeStream := none } : Cli.State), Except.error e)
            | .ok (s2, p) => (s2, .ok [.out p])) = (s', r) →
        Inv s' ∧ (∀ rs, r = .ok rs → Em s s' rs) := by
      intro active _ h
      by_cases ha : active
      · simp only [ha, not_true_eq_false, if_false] at h
        cases hact : s.activeStream with
        | none =>
          simp only [hact, Prod.mk.injEq] at h; rw [← h.1, ← h.2]
          exact ⟨hnone, fun rs hr => by simp only [Except.ok.injEq] at hr; rw [← hr]; exact em_same rfl rfl⟩
        | some sid =>
          have hsid := hi.2 sid hact
          simp only [hact] at h
          split at h
          · simp only [Prod.mk.injEq] at h; rw [← h.1, ← h.2]; exact ⟨hnone, fun rs hr => by cases hr⟩
          · rename_i s2 p hs
            simp only [Prod.mk.injEq] at h; rw [← h.1, ← h.2]
            have hst := step_send hs trivial (epoch_lt now) hsid
            exact ⟨hst.2 hnone, fun rs hr => by simp only [Except.ok.injEq] at hr; rw [← hr]; exact hst.1⟩
      · simp only [ha, not_false_eq_true, if_true, Prod.mk.injEq] at h; rw [← h.1, ← h.2]
        exact ⟨hi, fun rs hr => by simp only [Except.ok.injEq] at hr; rw [← hr]; exact em_same rfl rfl⟩
    exact body _ h
  | ping now =>
    simp only [apply, Cli.sendPing] at h
    split at h
    · simp only [Prod.mk.injEq] at h; rw [← h.1, ← h.2]; exact ⟨hi, fun rs hr => by cases hr⟩
    · rename_i s2 p hs
      simp only [Prod.mk.injEq] at h; rw [← h.1, ← h.2]
      have hst := step_send hs trivial (epoch_lt now) z
      exact ⟨hst.2 hi, fun rs hr => by simp only [Except.ok.injEq] at hr; rw [← hr]; exact hst.1⟩
  | metadata now m =>
    simp only [apply, one, Cli.publishMetadata] at h
    split at h
    · simp only [Prod.mk.injEq] at h; rw [← h.1, ← h.2]; exact ⟨hi, fun rs hr => by cases hr⟩
    · rename_i sid hg
      split at h
      · simp only [Prod.mk.injEq] at h; rw [← h.1, ← h.2]; exact ⟨hi, fun rs hr => by cases hr⟩
      · rename_i s2 p hs
        simp only [Prod.mk.injEq] at h; rw [← h.1, ← h.2]
        have hst := step_send hs trivial (epoch_lt now) (guard_sid hi hg)
        exact ⟨hst.2 hi, fun rs hr => by simp only [Except.ok.injEq] at hr; rw [← hr]; exact hst.1⟩
  | media v d ts drop =>
    simp only [apply, one, Cli.publishMedia] at h
    split at h
    · simp only [Prod.mk.injEq] at h; rw [← h.1, ← h.2]; exact ⟨hi, fun rs hr => by cases hr⟩
    · rename_i sid hg
      split at h
      · simp only [Prod.mk.injEq] at h; rw [← h.1, ← h.2]; exact ⟨hi, fun rs hr => by cases hr⟩
      · rename_i s2 p hs
        simp only [Prod.mk.injEq] at h; rw [← h.1, ← h.2]
        have hst := step_send hs (by cases v <;> exact trivial) hw (guard_sid hi hg)
        exact ⟨hst.2 hi, fun rs hr => by simp only [Except.ok.injEq] at hr; rw [← hr]; exact hst.1⟩

def run (s : Cli.State) : List Op → Cli.State × List Cli.Res
  | [] => (s, [])
  | op :: rest =>
    let x := apply s op
    let y := run x.1 rest
    (y.1, (match x.2 with
           | .ok rs => rs
           | .error _ => []) ++ y.2)

/-- excludes known finding K2 (see SrvEmit.ErrKeepsSer) -/
def ErrKeepsSer (s : Cli.State) : List Op → Prop
  | [] => True
  | op :: rest =>
    (match (apply s op).2 with
     | .error _ => (apply s op).1.ser = s.ser
     | .ok _ => True) ∧ ErrKeepsSer (apply s op).1 rest

theorem run_step : ∀ (ops : List Op) (s : Cli.State), Inv s → (∀ op ∈ ops, op.WF) → ErrKeepsSer s ops →
    Em s (run s ops).1 (run s ops).2 ∧ Inv (run s ops).1 := by
  intro ops
  induction ops with
  | nil => intro s hi _ _; exact ⟨em_same rfl rfl, hi⟩
  | cons op rest ih =>
    intro s hi hw hk
    obtain ⟨hk1, hk2⟩ := hk
    obtain ⟨hi1, hem⟩ := apply_step (op := op) hi (hw op (List.mem_cons_self ..)) (rfl : apply s op = ((apply s op).1, (apply s op).2))
    obtain ⟨hr, hir⟩ := ih (apply s op).1 hi1 (fun o ho => hw o (List.mem_cons_of_mem _ ho)) hk2
    simp only [run]
    refine ⟨?_, hir⟩
    cases hx : (apply s op).2 with
    | ok rs =>
      simp only
      exact em_trans (hem rs hx) hr
    | error e =>
      simp only [hx] at hk1
      simp only [List.nil_append]
      obtain ⟨xs, e1, e2, e3⟩ := hr
      exact ⟨xs, by rw [← hk1]; exact e1, e2, e3⟩

theorem inv_fresh (cfg : Cli.Config) : Inv { cfg := cfg } := ⟨Des.coreOK_init, fun sid h => by cases h⟩

end Rml.CliEmit
