/-
Handling a message other than SetChunkSize does not look at the deserializer at all: with any other
deserializer state in place the results are the same and that state is left in place.
-/
import Rml.Lemmas.SessBuf
namespace Rml.DesPS
open Rml Rml.Bytes Rml.Chunk Rml.Amf0 Rml.Msgs Rml.Sess

def withDes (s : Srv.State) (b : Des.State) : Srv.State := { s with des := b }

def lift (b : Des.State) : Except Err (Srv.State × List Srv.Res) → Except Err (Srv.State × List Srv.Res)
  | .ok (s', rs) => .ok (withDes s' b, rs)
  | .error e => .error e

@[simp] theorem wb_ser (s : Srv.State) (b : Des.State) : (withDes s b).ser = s.ser := rfl
@[simp] theorem wb_app (s : Srv.State) (b : Des.State) : (withDes s b).app = s.app := rfl
@[simp] theorem wb_reqs (s : Srv.State) (b : Des.State) : (withDes s b).reqs = s.reqs := rfl
@[simp] theorem wb_nextReq (s : Srv.State) (b : Des.State) : (withDes s b).nextReq = s.nextReq := rfl
@[simp] theorem wb_connected (s : Srv.State) (b : Des.State) : (withDes s b).connected = s.connected := rfl
@[simp] theorem wb_streams (s : Srv.State) (b : Des.State) : (withDes s b).streams = s.streams := rfl
@[simp] theorem wb_nextStream (s : Srv.State) (b : Des.State) : (withDes s b).nextStream = s.nextStream := rfl
@[simp] theorem wb_fms (s : Srv.State) (b : Des.State) : (withDes s b).fmsVersion = s.fmsVersion := rfl
@[simp] theorem wb_oe (s : Srv.State) (b : Des.State) : (withDes s b).objectEncoding = s.objectEncoding := rfl
@[simp] theorem wb_des (s : Srv.State) (b : Des.State) : (withDes s b).des = b := rfl
@[simp] theorem wb_window (s : Srv.State) (b : Des.State) : (withDes s b).window = s.window := rfl
@[simp] theorem wb_since (s : Srv.State) (b : Des.State) : (withDes s b).since = s.since := rfl

theorem send_buf (s : Srv.State) (b : Des.State) (m : RtmpMsg) (ts msid : Nat) (f d : Bool) :
    Srv.send (withDes s b) m ts msid f d =
      match Srv.send s m ts msid f d with
      | .ok (s', p) => .ok (withDes s' b, p)
      | .error e => .error e := by
  unfold Srv.send withDes
  simp only
  cases sendMsg s.ser m ts msid f d with
  | error e => rfl
  | ok r => rfl

theorem errorOut_buf (s : Srv.State) (b : Des.State) (now : Nat) (code desc : Bytes) (tid sid : Nat) :
    Srv.errorOut (withDes s b) now code desc tid sid = lift b (Srv.errorOut s now code desc tid sid) := by
  unfold Srv.errorOut Srv.errorPacket
  rw [send_buf]
  cases Srv.send s _ _ _ with
  | error e => rfl
  | ok r => rfl

theorem cmdPublish_buf (s : Srv.State) (b : Des.State) (now sid tid : Nat) (args : List Val) :
    Srv.cmdPublish (withDes s b) now sid tid args = lift b (Srv.cmdPublish s now sid tid args) := by
  fun_cases Srv.cmdPublish s now sid tid args <;>
    simp_all +zetaDelta [Srv.cmdPublish, errorOut_buf, send_buf, lift] <;> rfl

theorem cmdPlay_buf (s : Srv.State) (b : Des.State) (now sid tid : Nat) (args : List Val) :
    Srv.cmdPlay (withDes s b) now sid tid args = lift b (Srv.cmdPlay s now sid tid args) := by
  fun_cases Srv.cmdPlay s now sid tid args <;>
    simp_all +zetaDelta [Srv.cmdPlay, errorOut_buf, send_buf, lift] <;> rfl

theorem cmdConnect_buf (s : Srv.State) (b : Des.State) (tid : Nat) (obj : Val) :
    Srv.cmdConnect (withDes s b) tid obj = lift b (Srv.cmdConnect s tid obj) := by
  fun_cases Srv.cmdConnect s tid obj <;>
    simp_all +zetaDelta [Srv.cmdConnect, lift] <;> rfl

theorem cmdCreateStream_buf (s : Srv.State) (b : Des.State) (now tid : Nat) :
    Srv.cmdCreateStream (withDes s b) now tid = lift b (Srv.cmdCreateStream s now tid) := by
  unfold Srv.cmdCreateStream
  simp only [wb_nextStream, wb_streams]
  have := send_buf { s with nextStream := s.nextStream + 1, streams := mapInsert s.nextStream .created s.streams } b
    (Srv.commandMsg (str "_result") tid .null [.number (F64.ofU32 s.nextStream)]) (epoch now) 0 false false
  unfold withDes at this ⊢
  simp only at this ⊢
  rw [this]
  cases Srv.send _ _ _ _ with
  | error e => rfl
  | ok r => rfl

theorem closeOrDelete_buf (s : Srv.State) (b : Des.State) (args : List Val) (delete : Bool) :
    Srv.cmdCloseOrDelete (withDes s b) args delete =
      (withDes (Srv.cmdCloseOrDelete s args delete).1 b, (Srv.cmdCloseOrDelete s args delete).2) := by
  fun_cases Srv.cmdCloseOrDelete s args delete <;>
    simp_all +zetaDelta [Srv.cmdCloseOrDelete] <;> rfl

theorem handleCommand_buf (s : Srv.State) (b : Des.State) (now sid : Nat) (name : Bytes) (tid : Nat) (obj : Val)
    (args : List Val) :
    Srv.handleCommand (withDes s b) now sid name tid obj args = lift b (Srv.handleCommand s now sid name tid obj args) := by
  unfold Srv.handleCommand
  simp only [cmdConnect_buf, cmdCreateStream_buf, cmdPlay_buf, cmdPublish_buf, closeOrDelete_buf]
  (repeat' split) <;> rfl

theorem handleMessage_buf (s : Srv.State) (b : Des.State) (now : Nat) (p : Msg) (m : RtmpMsg)
    (hm : ∀ n, m ≠ .setChunkSize n) :
    Srv.handleMessage (withDes s b) now p m = lift b (Srv.handleMessage s now p m) := by
  cases m with
  | amf0Command name tid obj args => exact handleCommand_buf s b now p.msid name tid obj args
  | userControl ev a c ts =>
    cases ev <;> simp only [Srv.handleMessage, send_buf] <;> first
      | rfl
      | (cases Srv.send s _ _ _ with
         | error e => rfl
         | ok r => rfl)
  | setChunkSize n => exact absurd rfl (hm n)
  | amf0Data vals => rfl
  | audio d => rfl
  | video d => rfl
  | abort _ => rfl
  | ack n => rfl
  | setPeerBandwidth _ _ => rfl
  | windowAck n => rfl
  | unknown _ _ => rfl

end Rml.DesPS

namespace Rml.DesPC
open Rml Rml.Bytes Rml.Chunk Rml.Amf0 Rml.Msgs Rml.Sess

def withDes (s : Cli.State) (b : Des.State) : Cli.State := { s with des := b }

def lift (b : Des.State) : Except Err (Cli.State × List Cli.Res) → Except Err (Cli.State × List Cli.Res)
  | .ok (s', rs) => .ok (withDes s' b, rs)
  | .error e => .error e

@[simp] theorem wb_cfg (s : Cli.State) (b : Des.State) : (withDes s b).cfg = s.cfg := rfl
@[simp] theorem wb_ser (s : Cli.State) (b : Des.State) : (withDes s b).ser = s.ser := rfl
@[simp] theorem wb_nextTxn (s : Cli.State) (b : Des.State) : (withDes s b).nextTxn = s.nextTxn := rfl
@[simp] theorem wb_txns (s : Cli.State) (b : Des.State) : (withDes s b).txns = s.txns := rfl
@[simp] theorem wb_st (s : Cli.State) (b : Des.State) : (withDes s b).st = s.st := rfl
@[simp] theorem wb_app (s : Cli.State) (b : Des.State) : (withDes s b).app = s.app := rfl
@[simp] theorem wb_active (s : Cli.State) (b : Des.State) : (withDes s b).activeStream = s.activeStream := rfl
@[simp] theorem wb_window (s : Cli.State) (b : Des.State) : (withDes s b).window = s.window := rfl
@[simp] theorem wb_since (s : Cli.State) (b : Des.State) : (withDes s b).since = s.since := rfl
@[simp] theorem wb_des (s : Cli.State) (b : Des.State) : (withDes s b).des = b := rfl

theorem send_buf (s : Cli.State) (b : Des.State) (m : RtmpMsg) (ts msid : Nat) (d : Bool) :
    Cli.send (withDes s b) m ts msid d =
      match Cli.send s m ts msid d with
      | .ok (s', p) => .ok (withDes s' b, p)
      | .error e => .error e := by
  unfold Cli.send withDes
  simp only
  cases sendMsg s.ser m ts msid false d with
  | error e => rfl
  | ok r => rfl

theorem handleResult_buf (s : Cli.State) (b : Des.State) (now tid : Nat) (obj : Val) (args : List Val) :
    Cli.handleResult (withDes s b) now tid obj args = lift b (Cli.handleResult s now tid obj args) := by
  unfold Cli.handleResult
  simp only [wb_txns, wb_cfg]
  cases hg : mapGet (F64.toU32 tid) s.txns with
  | none => rfl
  | some txn =>
    simp only
    cases txn with
    | connection app =>
      simp only [Cli.send, withDes]
      cases sendMsg s.ser (.windowAck s.cfg.windowAckSize) (epoch now) 0 false false with
      | error e => rfl
      | ok r =>
        obtain ⟨ser2, p1⟩ := r
        simp only
        cases Ser.setMaxChunkSize ser2 s.cfg.chunkSize 0 with
        | err e => rfl
        | hang => rfl
        | ok q => rfl
    | createStream purpose =>
      simp only
      match args with
      | [] => rfl
      | .number n :: rest =>
        simp only
        cases purpose with
        | play k =>
          simp only [Cli.send, withDes]
          cases sendMsg s.ser (.userControl .setBufferLength (some (F64.toU32 n)) (some s.cfg.bufferLengthMs) none)
              (epoch now) 0 false false with
          | error e => rfl
          | ok r =>
            obtain ⟨ser3, p1⟩ := r
            simp only
            cases sendMsg ser3 (.amf0Command (str "play") 0 .null [.str k]) (epoch now) (F64.toU32 n) false false with
            | error e => rfl
            | ok r2 => rfl
        | publish k t =>
          simp only [Cli.send, withDes]
          cases sendMsg s.ser _ (epoch now) (F64.toU32 n) false false with
          | error e => rfl
          | ok r => rfl
      | .boolean _ :: _ => rfl
      | .str _ :: _ => rfl
      | .object _ :: _ => rfl
      | .array _ :: _ => rfl
      | .null :: _ => rfl
      | .undefined :: _ => rfl

theorem errState_buf (s : Cli.State) (b : Des.State) (tid : Nat) (args : List Val) :
    Cli.handleResultErrState (withDes s b) tid args = withDes (Cli.handleResultErrState s tid args) b := by
  fun_cases Cli.handleResultErrState s tid args <;>
    simp_all +zetaDelta [Cli.handleResultErrState] <;> rfl

theorem handleError_buf (s : Cli.State) (b : Des.State) (tid : Nat) (obj : Val) (args : List Val) :
    Cli.handleError (withDes s b) tid obj args = lift b (Cli.handleError s tid obj args) := by
  fun_cases Cli.handleError s tid obj args <;>
    simp_all +zetaDelta [Cli.handleError, lift] <;> rfl

theorem handleOnStatus_buf (s : Cli.State) (b : Des.State) (args : List Val) :
    Cli.handleOnStatus (withDes s b) args = lift b (Cli.handleOnStatus s args) := by
  fun_cases Cli.handleOnStatus s args <;>
    simp_all +zetaDelta [Cli.handleOnStatus, lift] <;> rfl

theorem handleMessage_buf (s : Cli.State) (b : Des.State) (now : Nat) (p : Msg) (m : RtmpMsg)
    (hm : ∀ n, m ≠ .setChunkSize n) :
    Cli.handleMessage (withDes s b) now p m =
      (withDes (Cli.handleMessage s now p m).1 b, (Cli.handleMessage s now p m).2) := by
  cases m with
  | amf0Command name tid obj args =>
    simp only [Cli.handleMessage, handleResult_buf, handleError_buf, handleOnStatus_buf, errState_buf]
    split
    · cases Cli.handleResult s now tid obj args with
      | ok q => rfl
      | error e => rfl
    · split
      · cases Cli.handleError s tid obj args with
        | ok q => rfl
        | error e => rfl
      · split
        · cases Cli.handleOnStatus s args with
          | ok q => rfl
          | error e => rfl
        · rfl
  | userControl ev a c ts =>
    cases ev <;> simp only [Cli.handleMessage, send_buf] <;> first
      | rfl
      | (cases Cli.send s _ _ _ with
         | error e => rfl
         | ok r => rfl)
  | setChunkSize n => exact absurd rfl (hm n)
  | amf0Data vals => rfl
  | audio d => rfl
  | video d => rfl
  | abort _ => rfl
  | ack n => rfl
  | setPeerBandwidth _ _ => rfl
  | windowAck n => rfl
  | unknown _ _ => rfl

end Rml.DesPC
