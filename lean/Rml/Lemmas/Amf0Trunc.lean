/-
Truncation: whatever the AMF0 decoder returns for a prefix of an input is a truncation prefix of
what it returns for the whole input — a list prefix whose last element may itself be a strict array
cut short, recursively — never a value that was not there.
-/
import Rml.Model.Amf0
namespace Rml.Amf0
open Rml Rml.Bytes

mutual
/-- `TP v' v`: `v'` is `v`, or a strict array cut short -/
inductive TP : Val → Val → Prop
  | refl (v : Val) : TP v v
  | arr (xs' xs : List Val) : TPL xs' xs → TP (.array xs') (.array xs)
/-- `TPL xs' xs`: a list prefix whose last element may be cut short -/
inductive TPL : List Val → List Val → Prop
  | nil (xs : List Val) : TPL [] xs
  | cons (v : Val) (xs' xs : List Val) : TPL xs' xs → TPL (v :: xs') (v :: xs)
  | last (v' v : Val) (xs : List Val) : TP v' v → TPL [v'] (v :: xs)
end

theorem TPL_refl : ∀ xs : List Val, TPL xs xs
  | [] => .nil []
  | v :: xs => .cons v xs xs (TPL_refl xs)

theorem TPL_app (acc : List Val) {xs' xs : List Val} (h : TPL xs' xs) : TPL (acc ++ xs') (acc ++ xs) := by
  induction acc with
  | nil => exact h
  | cons a acc ih => exact .cons a _ _ ih

theorem TPL_more (acc more : List Val) : TPL acc (acc ++ more) := by
  have := TPL_app acc (TPL.nil more)
  simpa using this

theorem TPL_last (acc : List Val) (v' v : Val) (more : List Val) (h : TP v' v) :
    TPL (acc ++ [v']) (acc ++ v :: more) :=
  TPL_app acc (.last v' v more h)

theorem takeN_mono {n : Nat} {t x r : Bytes} (ys : Bytes) (h : takeN n t = some (x, r)) :
    takeN n (t ++ ys) = some (x, r ++ ys) := by
  unfold takeN at h ⊢
  by_cases hl : t.length < n
  · simp [hl] at h
  · simp only [hl, if_false, Option.some.injEq, Prod.mk.injEq] at h
    have : ¬ (t ++ ys).length < n := by simp; omega
    simp only [this, if_false, Option.some.injEq, Prod.mk.injEq]
    have hn : n ≤ t.length := by omega
    rw [← h.1, ← h.2]
    exact ⟨List.take_append_of_le_length hn, List.drop_append_of_le_length hn⟩

theorem take1_mono {t r : Bytes} {x : UInt8} (ys : Bytes) (h : take1 t = some (x, r)) :
    take1 (t ++ ys) = some (x, r ++ ys) := by
  cases t with
  | nil => simp [take1] at h
  | cons a t' => simp only [take1, Option.some.injEq, Prod.mk.injEq] at h; simp [take1, h.1, ← h.2]

/-- a value position yields "nothing" only at the end of the input or at an object-end marker -/
theorem readValue_none {f d : Nat} {t r : Bytes} (h : readValue f d t = .ok (none, r)) :
    (t = [] ∧ r = []) ∨ (t = 9 :: r) := by
  cases f with
  | zero => simp [readValue] at h
  | succ f =>
    cases t with
    | nil => simp only [readValue, Except.ok.injEq, Prod.mk.injEq] at h; exact Or.inl ⟨rfl, h.2.symm⟩
    | cons m rest =>
      right
      simp only [readValue] at h
      by_cases h9 : m = 9
      · simp only [h9, if_true, Except.ok.injEq, Prod.mk.injEq, true_and] at h; rw [h9, h]
      · simp only [h9, if_false] at h
        repeat' split at h
        all_goals simp at h

/-- the array loop only ever appends to what it has gathered -/
theorem readArr_acc (f : Nat) : ∀ (d c : Nat) (bs : Bytes) (acc : List Val) (v : Val) (r : Bytes),
    readArr f d c bs acc = .ok (v, r) → ∃ more, v = .array (acc ++ more) := by
  induction f with
  | zero => intro d c bs acc v r h; simp [readArr] at h
  | succ f ih =>
    intro d c bs acc v r h
    cases c with
    | zero => simp only [readArr, Except.ok.injEq, Prod.mk.injEq] at h; exact ⟨[], by simp [h.1]⟩
    | succ c =>
      simp only [readArr] at h
      cases hv : readValue f d bs with
      | error e => simp [hv] at h
      | ok p =>
        obtain ⟨o, r1⟩ := p
        cases o with
        | none => simp only [hv, Except.ok.injEq, Prod.mk.injEq] at h; exact ⟨[], by simp [h.1]⟩
        | some v1 =>
          simp only [hv] at h
          obtain ⟨more, hm⟩ := ih d c r1 (acc ++ [v1]) v r h
          exact ⟨v1 :: more, by simp [hm]⟩

theorem readArr_nil {f d c : Nat} {acc : List Val} {v : Val} {r : Bytes}
    (h : readArr f d c [] acc = .ok (v, r)) : v = .array acc ∧ r = [] := by
  cases f with
  | zero => simp [readArr] at h
  | succ f =>
    cases c with
    | zero => simp only [readArr, Except.ok.injEq, Prod.mk.injEq] at h; exact ⟨h.1.symm, h.2.symm⟩
    | succ c =>
      simp only [readArr] at h
      cases f with
      | zero => simp [readValue] at h
      | succ f => simp only [readValue, Except.ok.injEq, Prod.mk.injEq] at h; exact ⟨h.1.symm, h.2.symm⟩

theorem readProps_nil {f d : Nat} {acc : List (Bytes × Val)} {v : Val} {r : Bytes} :
    readProps f d [] acc ≠ .ok (v, r) := by
  cases f <;> simp [readProps, takeN]

/-- result shapes of the three readers on an extension of an input they already read successfully -/
def VOk (v' : Val) (r' ys : Bytes) (res : Option Val × Bytes) : Prop :=
  ∃ v r, res = (some v, r) ∧ ((v' = v ∧ r = r' ++ ys) ∨ (r' = [] ∧ TP v' v))
def AOk (v' : Val) (r' ys : Bytes) (res : Val × Bytes) : Prop :=
  ∃ xs' xs r, v' = .array xs' ∧ res = (.array xs, r) ∧ ((xs' = xs ∧ r = r' ++ ys) ∨ (r' = [] ∧ TPL xs' xs))

theorem trunc_main (f1 : Nat) :
    (∀ (f2 d : Nat) (t ys : Bytes) (v' : Val) (r' : Bytes) (res : Option Val × Bytes),
        readValue f1 d t = .ok (some v', r') → readValue f2 d (t ++ ys) = .ok res → VOk v' r' ys res) ∧
    (∀ (f2 d : Nat) (t ys : Bytes) (acc : List (Bytes × Val)) (v' : Val) (r' : Bytes) (res : Val × Bytes),
        readProps f1 d t acc = .ok (v', r') → readProps f2 d (t ++ ys) acc = .ok res → res = (v', r' ++ ys)) ∧
    (∀ (f2 d c : Nat) (t ys : Bytes) (acc : List Val) (v' : Val) (r' : Bytes) (res : Val × Bytes),
        readArr f1 d c t acc = .ok (v', r') → readArr f2 d c (t ++ ys) acc = .ok res → AOk v' r' ys res) := by
  induction f1 with
  | zero =>
    refine ⟨?_, ?_, ?_⟩
    · intro f2 d t ys v' r' res h; simp [readValue] at h
    · intro f2 d t ys acc v' r' res h; simp [readProps] at h
    · intro f2 d c t ys acc v' r' res h; simp [readArr] at h
  | succ n ih =>
    obtain ⟨ihV, ihP, ihA⟩ := ih
    refine ⟨?_, ?_, ?_⟩
    · -- readValue
      intro f2 d t ys v' r' res h1 h2
      cases t with
      | nil => simp [readValue] at h1
      | cons m rest =>
        cases f2 with
        | zero => simp [readValue] at h2
        | succ k =>
          simp only [List.cons_append, readValue] at h1 h2
          by_cases c9 : m = 9
          · simp [c9] at h1
          · simp only [c9, if_false] at h1 h2
            by_cases cd : (m = 3 ∨ m = 8 ∨ m = 10) ∧ d ≥ maxDepth
            · simp [cd] at h1
            · simp only [cd, if_false] at h1 h2
              by_cases c1 : m = 1
              · simp only [c1, if_true] at h1 h2
                cases ht : take1 rest with
                | none => simp [ht] at h1
                | some q =>
                  obtain ⟨x, r⟩ := q
                  simp only [ht, Except.ok.injEq, Prod.mk.injEq, Option.some.injEq] at h1
                  simp only [take1_mono ys ht, Except.ok.injEq] at h2
                  exact ⟨_, _, h2.symm, Or.inl ⟨h1.1.symm, by rw [h1.2]⟩⟩
              · simp only [c1, if_false] at h1 h2
                by_cases c5 : m = 5
                · simp only [c5, if_true, Except.ok.injEq, Prod.mk.injEq, Option.some.injEq] at h1 h2
                  exact ⟨_, _, h2.symm, Or.inl ⟨h1.1.symm, by rw [h1.2]⟩⟩
                · simp only [c5, if_false] at h1 h2
                  by_cases c6 : m = 6
                  · simp only [c6, if_true, Except.ok.injEq, Prod.mk.injEq, Option.some.injEq] at h1 h2
                    exact ⟨_, _, h2.symm, Or.inl ⟨h1.1.symm, by rw [h1.2]⟩⟩
                  · simp only [c6, if_false] at h1 h2
                    by_cases c0 : m = 0
                    · simp only [c0, if_true] at h1 h2
                      cases ht : takeN 8 rest with
                      | none => simp [ht] at h1
                      | some q =>
                        obtain ⟨x, r⟩ := q
                        simp only [ht, Except.ok.injEq, Prod.mk.injEq, Option.some.injEq] at h1
                        simp only [takeN_mono ys ht, Except.ok.injEq] at h2
                        exact ⟨_, _, h2.symm, Or.inl ⟨h1.1.symm, by rw [h1.2]⟩⟩
                    · simp only [c0, if_false] at h1 h2
                      by_cases c3 : m = 3
                      · simp only [c3, if_true] at h1 h2
                        cases hp : readProps n (d + 1) rest [] with
                        | error e => simp [hp] at h1
                        | ok q =>
                          obtain ⟨pv, pr⟩ := q
                          simp only [hp, Except.ok.injEq, Prod.mk.injEq, Option.some.injEq] at h1
                          cases hp2 : readProps k (d + 1) (rest ++ ys) [] with
                          | error e => simp [hp2] at h2
                          | ok q2 =>
                            simp only [hp2, Except.ok.injEq] at h2
                            have := ihP k (d + 1) rest ys [] pv pr q2 hp hp2
                            subst this
                            exact ⟨_, _, h2.symm, Or.inl ⟨h1.1.symm, by rw [h1.2]⟩⟩
                      · simp only [c3, if_false] at h1 h2
                        by_cases c8 : m = 8
                        · simp only [c8, if_true] at h1 h2
                          cases ht : takeN 4 rest with
                          | none => simp [ht] at h1
                          | some q0 =>
                            obtain ⟨x, r⟩ := q0
                            simp only [ht] at h1
                            simp only [takeN_mono ys ht] at h2
                            cases hp : readProps n (d + 1) r [] with
                            | error e => simp [hp] at h1
                            | ok q =>
                              obtain ⟨pv, pr⟩ := q
                              simp only [hp, Except.ok.injEq, Prod.mk.injEq, Option.some.injEq] at h1
                              cases hp2 : readProps k (d + 1) (r ++ ys) [] with
                              | error e => simp [hp2] at h2
                              | ok q2 =>
                                simp only [hp2, Except.ok.injEq] at h2
                                have := ihP k (d + 1) r ys [] pv pr q2 hp hp2
                                subst this
                                exact ⟨_, _, h2.symm, Or.inl ⟨h1.1.symm, by rw [h1.2]⟩⟩
                        · simp only [c8, if_false] at h1 h2
                          by_cases c2 : m = 2
                          · simp only [c2, if_true] at h1 h2
                            cases ht : takeN 2 rest with
                            | none => simp [ht] at h1
                            | some q0 =>
                              obtain ⟨l, r⟩ := q0
                              simp only [ht] at h1
                              simp only [takeN_mono ys ht] at h2
                              cases ht2 : takeN (beVal l 0) r with
                              | none => simp [ht2] at h1
                              | some q1 =>
                                obtain ⟨sb, r2⟩ := q1
                                simp only [ht2] at h1
                                simp only [takeN_mono ys ht2] at h2
                                by_cases hu : Utf8.valid sb = true
                                · simp only [hu, if_true, Except.ok.injEq, Prod.mk.injEq, Option.some.injEq] at h1 h2
                                  exact ⟨_, _, h2.symm, Or.inl ⟨h1.1.symm, by rw [h1.2]⟩⟩
                                · simp [hu] at h1
                          · simp only [c2, if_false] at h1 h2
                            by_cases c10 : m = 10
                            · simp only [c10, if_true] at h1 h2
                              cases ht : takeN 4 rest with
                              | none => simp [ht] at h1
                              | some q0 =>
                                obtain ⟨cnt, r⟩ := q0
                                simp only [ht] at h1
                                simp only [takeN_mono ys ht] at h2
                                cases ha : readArr n (d + 1) (beVal cnt 0) r [] with
                                | error e => simp [ha] at h1
                                | ok q =>
                                  obtain ⟨av, ar⟩ := q
                                  simp only [ha, Except.ok.injEq, Prod.mk.injEq, Option.some.injEq] at h1
                                  cases ha2 : readArr k (d + 1) (beVal cnt 0) (r ++ ys) [] with
                                  | error e => simp [ha2] at h2
                                  | ok q2 =>
                                    simp only [ha2, Except.ok.injEq] at h2
                                    obtain ⟨xs', xs, rr, e1, e2, hcase⟩ := ihA k (d + 1) (beVal cnt 0) r ys [] av ar q2 ha ha2
                                    subst e2
                                    refine ⟨_, _, h2.symm, ?_⟩
                                    rcases hcase with ⟨a1, a2⟩ | ⟨a1, a2⟩
                                    · left; exact ⟨by rw [← h1.1, e1, a1], by rw [a2, h1.2]⟩
                                    · right; exact ⟨by rw [← h1.2, a1], by rw [← h1.1, e1]; exact .arr _ _ a2⟩
                            · simp [c10] at h1
    · -- readProps
      intro f2 d t ys acc v' r' res h1 h2
      cases f2 with
      | zero => simp [readProps] at h2
      | succ k =>
        simp only [readProps] at h1 h2
        cases ht : takeN 2 t with
        | none => simp [ht] at h1
        | some q0 =>
          obtain ⟨l, r⟩ := q0
          simp only [ht] at h1
          simp only [takeN_mono ys ht] at h2
          by_cases hz : beVal l 0 = 0
          · simp only [hz, if_true] at h1 h2
            cases ht1 : take1 r with
            | none => simp [ht1] at h1
            | some q1 =>
              obtain ⟨x, r2⟩ := q1
              simp only [ht1] at h1
              simp only [take1_mono ys ht1] at h2
              by_cases hx : x = 9
              · simp only [hx, if_true, Except.ok.injEq, Prod.mk.injEq] at h1 h2
                rw [← h2, ← h1.1, ← h1.2]
              · simp [hx] at h1
          · simp only [hz, if_false] at h1 h2
            cases ht2 : takeN (beVal l 0) r with
            | none => simp [ht2] at h1
            | some q1 =>
              obtain ⟨kb, r2⟩ := q1
              simp only [ht2] at h1
              simp only [takeN_mono ys ht2] at h2
              by_cases hu : Utf8.valid kb = true
              · simp only [hu, if_true] at h1 h2
                cases hv : readValue n d r2 with
                | error e => simp [hv] at h1
                | ok q =>
                  obtain ⟨o, r3⟩ := q
                  cases o with
                  | none => simp [hv] at h1
                  | some v1 =>
                    simp only [hv] at h1
                    cases hv2 : readValue k d (r2 ++ ys) with
                    | error e => simp [hv2] at h2
                    | ok q2 =>
                      obtain ⟨w, wr, e2, hcase⟩ := ihV k d r2 ys v1 r3 q2 hv hv2
                      subst e2
                      simp only [hv2] at h2
                      rcases hcase with ⟨a1, a2⟩ | ⟨a1, _⟩
                      · subst a1; subst a2
                        exact ihP k d r3 ys _ v' r' res h1 h2
                      · subst a1
                        exact absurd h1 readProps_nil
              · simp [hu] at h1
    · -- readArr
      intro f2 d c t ys acc v' r' res h1 h2
      cases f2 with
      | zero => simp [readArr] at h2
      | succ k =>
        cases c with
        | zero =>
          simp only [readArr, Except.ok.injEq, Prod.mk.injEq] at h1 h2
          exact ⟨acc, acc, _, h1.1.symm, h2.symm, Or.inl ⟨rfl, by rw [h1.2]⟩⟩
        | succ c =>
          simp only [readArr] at h1
          cases hv : readValue n d t with
          | error e => simp [hv] at h1
          | ok q =>
            obtain ⟨o, r1⟩ := q
            cases o with
            | none =>
              simp only [hv, Except.ok.injEq, Prod.mk.injEq] at h1
              rcases readValue_none hv with ⟨ht, hr⟩ | ht
              · -- end of input: the array ends here; the longer input continues it
                subst ht; subst hr
                obtain ⟨more, hm⟩ := readArr_acc (k + 1) d (c + 1) ([] ++ ys) acc res.1 res.2 h2
                refine ⟨acc, acc ++ more, res.2, h1.1.symm, ?_, Or.inr ⟨h1.2.symm, TPL_more acc more⟩⟩
                rw [← hm]
              · -- an object-end marker ends the array, with or without more bytes behind it
                subst ht
                simp only [readArr, List.cons_append] at h2
                cases k with
                | zero => simp [readValue] at h2
                | succ k =>
                  simp only [readValue, if_true, Except.ok.injEq] at h2
                  exact ⟨acc, acc, _, h1.1.symm, h2.symm, Or.inl ⟨rfl, by rw [h1.2]⟩⟩
            | some v1 =>
              simp only [hv] at h1
              simp only [readArr] at h2
              cases hv2 : readValue k d (t ++ ys) with
              | error e => simp [hv2] at h2
              | ok q2 =>
                obtain ⟨w, wr, e2, hcase⟩ := ihV k d t ys v1 r1 q2 hv hv2
                subst e2
                simp only [hv2] at h2
                rcases hcase with ⟨a1, a2⟩ | ⟨a1, a2⟩
                · subst a1; subst a2
                  exact ihA k d c r1 ys _ v' r' res h1 h2
                · subst a1
                  obtain ⟨e1, e3⟩ := readArr_nil h1
                  obtain ⟨more, hm⟩ := readArr_acc k d c wr (acc ++ [w]) res.1 res.2 h2
                  refine ⟨acc ++ [v1], acc ++ w :: more, res.2, e1, ?_, Or.inr ⟨e3, TPL_last acc v1 w more a2⟩⟩
                  rw [show acc ++ w :: more = acc ++ [w] ++ more by simp, ← hm]

theorem readAll_acc (f : Nat) : ∀ (bs : Bytes) (acc vs : List Val) (r : Bytes),
    readAll f bs acc = .ok (vs, r) → ∃ more, vs = acc ++ more := by
  induction f with
  | zero => intro bs acc vs r h; simp [readAll] at h
  | succ f ih =>
    intro bs acc vs r h
    simp only [readAll] at h
    cases hv : readValue f 0 bs with
    | error e => simp [hv] at h
    | ok p =>
      obtain ⟨o, r1⟩ := p
      cases o with
      | none => simp only [hv, Except.ok.injEq, Prod.mk.injEq] at h; exact ⟨[], by simp [h.1]⟩
      | some v1 =>
        simp only [hv] at h
        obtain ⟨more, hm⟩ := ih r1 (acc ++ [v1]) vs r h
        exact ⟨v1 :: more, by simp [hm]⟩

theorem readAll_nil {f : Nat} {acc vs : List Val} {r : Bytes} (h : readAll f [] acc = .ok (vs, r)) :
    vs = acc ∧ r = [] := by
  cases f with
  | zero => simp [readAll] at h
  | succ f =>
    simp only [readAll] at h
    cases f with
    | zero => simp [readValue] at h
    | succ f => simp only [readValue, Except.ok.injEq, Prod.mk.injEq] at h; exact ⟨h.1.symm, h.2.symm⟩

/-- the top-level loop on a prefix `t` of `t ++ ys` -/
theorem readAll_trunc (f1 : Nat) : ∀ (f2 : Nat) (t ys : Bytes) (acc vs' : List Val) (r' : Bytes) (res : List Val × Bytes),
    readAll f1 t acc = .ok (vs', r') → readAll f2 (t ++ ys) acc = .ok res →
    (res = (vs', r' ++ ys)) ∨ (r' = [] ∧ TPL vs' res.1) := by
  induction f1 with
  | zero => intro f2 t ys acc vs' r' res h; simp [readAll] at h
  | succ n ih =>
    intro f2 t ys acc vs' r' res h1 h2
    cases f2 with
    | zero => simp [readAll] at h2
    | succ k =>
      simp only [readAll] at h1
      cases hv : readValue n 0 t with
      | error e => simp [hv] at h1
      | ok q =>
        obtain ⟨o, r1⟩ := q
        cases o with
        | none =>
          simp only [hv, Except.ok.injEq, Prod.mk.injEq] at h1
          rcases readValue_none hv with ⟨ht, hr⟩ | ht
          · subst ht; subst hr
            obtain ⟨more, hm⟩ := readAll_acc (k + 1) ([] ++ ys) acc res.1 res.2 h2
            right
            exact ⟨h1.2.symm, by rw [← h1.1, hm]; exact TPL_more acc more⟩
          · subst ht
            simp only [readAll, List.cons_append] at h2
            cases k with
            | zero => simp [readValue] at h2
            | succ k =>
              simp only [readValue, if_true, Except.ok.injEq] at h2
              left; rw [← h2, h1.1, h1.2]
        | some v1 =>
          simp only [hv] at h1
          simp only [readAll] at h2
          cases hv2 : readValue k 0 (t ++ ys) with
          | error e => simp [hv2] at h2
          | ok q2 =>
            obtain ⟨w, wr, e2, hcase⟩ := (trunc_main n).1 k 0 t ys v1 r1 q2 hv hv2
            subst e2
            simp only [hv2] at h2
            rcases hcase with ⟨a1, a2⟩ | ⟨a1, a2⟩
            · subst a1; subst a2
              exact ih k r1 ys _ vs' r' res h1 h2
            · subst a1
              obtain ⟨e1, e3⟩ := readAll_nil h1
              obtain ⟨more, hm⟩ := readAll_acc k wr (acc ++ [w]) res.1 res.2 h2
              right
              refine ⟨e3, ?_⟩
              rw [e1, hm, show acc ++ [w] ++ more = acc ++ w :: more by simp]
              exact TPL_last acc v1 w more a2

end Rml.Amf0
