/- `get_next_message`: progress facts used by the session loops (C03: never loops without consuming input) -/
import Rml.Lemmas.DesRun
namespace Rml.Des
open Rml Rml.Bytes Rml.Chunk

theorem stageStep_msg_stage (c c' : Core) (b rest : Bytes) (msg : Msg)
    (h : stageStep c b = .ok c' rest (some msg)) : c'.stage = .csid ∧ c.stage = .payload := by
  unfold stageStep at h
  cases hs : c.stage <;> simp only [hs] at h <;> (repeat' split at h) <;> simp at h
  all_goals (obtain ⟨h1, _, _⟩ := h; subst h1; exact ⟨rfl, rfl⟩)

/-- a chunk that starts at its basic header takes at least one byte before anything else happens -/
theorem stageStep_csid_consumes (c c' : Core) (b rest : Bytes) (m : Option Msg) (hs : c.stage = .csid)
    (h : stageStep c b = .ok c' rest m) : rest.length < b.length ∧ m = none := by
  unfold stageStep at h
  simp only [hs] at h
  cases hb : basicHdr b with
  | none => simp [hb] at h
  | some q =>
    obtain ⟨fmt, csid, r⟩ := q
    have hl := basicHdr_len hb
    simp only [hb] at h
    split at h
    · simp only [Step.ok.injEq] at h; obtain ⟨_, h2, h3⟩ := h; subst h2; exact ⟨by omega, h3.symm⟩
    · split at h
      · simp at h
      · simp only [Step.ok.injEq] at h; obtain ⟨_, h2, h3⟩ := h; subst h2; exact ⟨by omega, h3.symm⟩

theorem stageStep_len_le (c c' : Core) (b rest : Bytes) (m : Option Msg) (h : stageStep c b = .ok c' rest m) :
    rest.length ≤ b.length := by
  have := stageStep_decreases c c' b rest m h
  unfold mu at this
  have h1 : rank c'.stage ≤ 6 := by cases c'.stage <;> simp [rank]
  have h2 : rank c.stage ≤ 6 := by cases c.stage <;> simp [rank]
  omega

/-- what one `get_next_message` call does: it never stops for lack of model fuel; it never lengthens the
    buffer; when it returns a message the deserializer is at the start of a chunk again, and if it had
    started at the start of a chunk it has consumed at least one byte -/
theorem nextFuel_facts (f : Nat) : ∀ (c : Core) (b : Bytes), mu c b < f →
    (nextFuel f c b).err ≠ some .fuel ∧ (nextFuel f c b).buf.length ≤ b.length ∧
    (∀ msg, (nextFuel f c b).msg = some msg →
        (nextFuel f c b).core.stage = .csid ∧ (c.stage = .csid → (nextFuel f c b).buf.length < b.length)) := by
  induction f with
  | zero => intro c b h; omega
  | succ f ih =>
    intro c b h
    simp only [nextFuel]
    cases hs : stageStep c b with
    | needMore => exact ⟨by simp, Nat.le_refl _, fun _ hm => by simp at hm⟩
    | err e =>
      refine ⟨?_, Nat.le_refl _, fun _ hm => by simp at hm⟩
      simp only [ne_eq, Option.some.injEq]
      intro he; subst he
      unfold stageStep at hs
      cases hst : c.stage <;> simp only [hst] at hs <;> (repeat' split at hs) <;> simp at hs
    | ok c' rest m =>
      have hd := stageStep_decreases c c' b rest m hs
      have hle := stageStep_len_le c c' b rest m hs
      cases m with
      | none =>
        simp only
        obtain ⟨i1, i2, i3⟩ := ih c' rest (by omega)
        refine ⟨i1, by omega, fun msg hm => ?_⟩
        obtain ⟨j1, j2⟩ := i3 msg hm
        refine ⟨j1, fun hc => ?_⟩
        have := (stageStep_csid_consumes c c' b rest none hc hs).1
        omega
      | some msg =>
        simp only
        obtain ⟨k1, k2⟩ := stageStep_msg_stage c c' b rest msg hs
        refine ⟨by simp, hle, fun _ _ => ⟨k1, fun hc => ?_⟩⟩
        rw [hc] at k2; cases k2

theorem next_facts (s : State) :
    (next s).err ≠ some .fuel ∧ (next s).buf.length ≤ s.buf.length ∧
    (∀ msg, (next s).msg = some msg →
        (next s).core.stage = .csid ∧ (s.core.stage = .csid → (next s).buf.length < s.buf.length)) :=
  nextFuel_facts _ _ _ (mu_lt_fuelFor _ _)

end Rml.Des
