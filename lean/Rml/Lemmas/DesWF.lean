/- every message the deserializer model returns has a 32-bit message stream id -/
import Rml.Lemmas.DesRun
namespace Rml.Des
open Rml Rml.Bytes Rml.Chunk

def CoreOK (c : Core) : Prop := c.cur.msid < 4294967296 ∧ ∀ k h, mapGet k c.prev = some h → h.msid < 4294967296

theorem coreOK_init : CoreOK {} := ⟨by decide, fun k h hh => by simp [mapGet] at hh⟩

theorem take4le_lt {b r : Bytes} {v : Nat} (h : take4le b = some (v, r)) : v < 4294967296 := by
  match b, h with
  | x0 :: x1 :: x2 :: x3 :: r', h =>
    simp only [take4le, Option.some.injEq, Prod.mk.injEq] at h
    have h0 := x0.toNat_lt; have h1 := x1.toNat_lt; have h2 := x2.toNat_lt; have h3 := x3.toNat_lt
    rw [← h.1]; unfold rd32; omega

theorem mapGet_of_mapRemove {α : Type} (k j : Nat) (m : List (Nat × α)) (v : α)
    (h : mapGet j (mapRemove k m) = some v) : mapGet j m = some v := by
  by_cases hj : j = k
  · subst hj; rw [mapGet_mapRemove_self] at h; cases h
  · rw [mapGet_mapRemove_ne k j hj] at h; exact h

theorem stageStep_ok (c c' : Core) (b rest : Bytes) (m : Option Msg) (hc : CoreOK c)
    (h : stageStep c b = .ok c' rest m) : CoreOK c' ∧ ∀ msg, m = some msg → msg.msid < 4294967296 := by
  obtain ⟨hcur, hprev⟩ := hc
  unfold stageStep at h
  cases hs : c.stage <;> simp only [hs] at h
  · -- csid
    cases hb : basicHdr b with
    | none => simp [hb] at h
    | some q =>
      obtain ⟨fmt, csid, r⟩ := q
      simp only [hb] at h
      by_cases hf : fmt = .f0
      · simp only [hf, if_true, Step.ok.injEq] at h
        obtain ⟨h1, _, h3⟩ := h
        subst h1; subst h3
        exact ⟨⟨by show (0 : Nat) < 4294967296; omega, hprev⟩, fun _ hm => by cases hm⟩
      · simp only [hf, if_false] at h
        cases hg : mapGet csid c.prev with
        | none => simp [hg] at h
        | some hd =>
          simp only [hg, Step.ok.injEq] at h
          obtain ⟨h1, _, h3⟩ := h
          subst h1; subst h3
          exact ⟨⟨hprev csid hd hg, fun k h' hh => hprev k h' (mapGet_of_mapRemove csid k c.prev h' hh)⟩,
            fun _ hm => by cases hm⟩
  · -- its
    by_cases hf : c.fmt = .f3
    · simp only [hf, if_true, Step.ok.injEq] at h
      obtain ⟨h1, _, h3⟩ := h
      subst h1; subst h3
      refine ⟨⟨?_, hprev⟩, fun _ hm => by cases hm⟩
      show (if c.pdata.isEmpty then ({ c.cur with ts := add32 c.cur.ts c.cur.field } : Hdr) else c.cur).msid < _
      split <;> exact hcur
    · simp only [hf, if_false] at h
      cases ht : take3 b with
      | none => simp [ht] at h
      | some q =>
        obtain ⟨t, r⟩ := q
        simp only [ht, Step.ok.injEq] at h
        obtain ⟨h1, _, h3⟩ := h
        subst h1; subst h3
        exact ⟨⟨hcur, hprev⟩, fun _ hm => by cases hm⟩
  · -- mlen
    by_cases hf : c.fmt = .f2 ∨ c.fmt = .f3
    · simp only [hf, if_true, Step.ok.injEq] at h
      obtain ⟨h1, _, h3⟩ := h
      subst h1; subst h3
      exact ⟨⟨hcur, hprev⟩, fun _ hm => by cases hm⟩
    · simp only [hf, if_false] at h
      cases ht : take3 b with
      | none => simp [ht] at h
      | some q =>
        obtain ⟨t, r⟩ := q
        simp only [ht, Step.ok.injEq] at h
        obtain ⟨h1, _, h3⟩ := h
        subst h1; subst h3
        exact ⟨⟨hcur, hprev⟩, fun _ hm => by cases hm⟩
  · -- mtyp
    by_cases hf : c.fmt = .f2 ∨ c.fmt = .f3
    · simp only [hf, if_true, Step.ok.injEq] at h
      obtain ⟨h1, _, h3⟩ := h
      subst h1; subst h3
      exact ⟨⟨hcur, hprev⟩, fun _ hm => by cases hm⟩
    · simp only [hf, if_false] at h
      cases ht : take1 b with
      | none => simp [ht] at h
      | some q =>
        obtain ⟨t, r⟩ := q
        simp only [ht, Step.ok.injEq] at h
        obtain ⟨h1, _, h3⟩ := h
        subst h1; subst h3
        exact ⟨⟨hcur, hprev⟩, fun _ hm => by cases hm⟩
  · -- msid
    by_cases hf : c.fmt ≠ .f0
    · rw [if_pos hf] at h
      simp only [Step.ok.injEq] at h
      obtain ⟨h1, _, h3⟩ := h
      subst h1; subst h3
      exact ⟨⟨hcur, hprev⟩, fun _ hm => by cases hm⟩
    · rw [if_neg hf] at h
      cases ht : take4le b with
      | none => simp [ht] at h
      | some q =>
        obtain ⟨t, r⟩ := q
        simp only [ht, Step.ok.injEq] at h
        obtain ⟨h1, _, h3⟩ := h
        subst h1; subst h3
        exact ⟨⟨take4le_lt ht, hprev⟩, fun _ hm => by cases hm⟩
  · -- ext
    by_cases hf : c.cur.field < maxTs24
    · simp only [hf, if_true, Step.ok.injEq] at h
      obtain ⟨h1, _, h3⟩ := h
      subst h1; subst h3
      exact ⟨⟨hcur, hprev⟩, fun _ hm => by cases hm⟩
    · simp only [hf, if_false] at h
      cases ht : take4be b with
      | none => simp [ht] at h
      | some q =>
        obtain ⟨t, r⟩ := q
        simp only [ht, Step.ok.injEq] at h
        obtain ⟨h1, _, h3⟩ := h
        subst h1; subst h3
        exact ⟨⟨hcur, hprev⟩, fun _ hm => by cases hm⟩
  · -- payload
    by_cases hl : c.cur.len < c.pdata.length
    · simp [hl] at h
    · simp only [hl, if_false] at h
      generalize (if c.cur.len > c.maxCs then min (c.cur.len - c.pdata.length) c.maxCs else c.cur.len) = n at h
      by_cases hbl : b.length < n
      · simp [hbl] at h
      · simp only [hbl, if_false] at h
        have hins : ∀ k h', mapGet k (mapInsert c.cur.csid c.cur c.prev) = some h' → h'.msid < 4294967296 := by
          intro k h' hh
          by_cases hk : k = c.cur.csid
          · subst hk; rw [mapGet_mapInsert_self] at hh; simp only [Option.some.injEq] at hh; rw [← hh]; exact hcur
          · rw [mapGet_mapInsert_ne _ k hk] at hh; exact hprev k h' hh
        by_cases hcomp : (c.pdata ++ b.take n).length = c.cur.len
        · simp only [hcomp, if_true, Step.ok.injEq] at h
          obtain ⟨h1, _, h3⟩ := h
          subst h1; subst h3
          exact ⟨⟨by show (0 : Nat) < 4294967296; omega, hins⟩,
            fun msg hm => by simp only [Option.some.injEq] at hm; rw [← hm]; exact hcur⟩
        · simp only [hcomp, if_false, Step.ok.injEq] at h
          obtain ⟨h1, _, h3⟩ := h
          subst h1; subst h3
          exact ⟨⟨by show (0 : Nat) < 4294967296; omega, hins⟩, fun _ hm => by cases hm⟩

theorem nextFuel_ok (f : Nat) : ∀ (c : Core) (b : Bytes), CoreOK c →
    CoreOK (nextFuel f c b).core ∧ ∀ msg, (nextFuel f c b).msg = some msg → msg.msid < 4294967296 := by
  induction f with
  | zero => intro c b hc; exact ⟨hc, fun _ hm => by simp [nextFuel] at hm⟩
  | succ f ih =>
    intro c b hc
    simp only [nextFuel]
    cases hs : stageStep c b with
    | needMore => exact ⟨hc, fun _ hm => by simp at hm⟩
    | err e => exact ⟨hc, fun _ hm => by simp at hm⟩
    | ok c' rest m =>
      obtain ⟨hc', hm'⟩ := stageStep_ok c c' b rest m hc hs
      cases m with
      | none => exact ih c' rest hc'
      | some msg => exact ⟨hc', fun msg' hm => by simp only [Option.some.injEq] at hm; rw [← hm]; exact hm' msg rfl⟩

theorem next_ok (s : State) (hc : CoreOK s.core) :
    CoreOK (next s).core ∧ ∀ msg, (next s).msg = some msg → msg.msid < 4294967296 :=
  nextFuel_ok _ _ _ hc

theorem setMaxChunkSize_ok {c c' : Core} {n : Nat} (hc : CoreOK c) (h : setMaxChunkSize c n = .ok c') : CoreOK c' := by
  unfold setMaxChunkSize at h
  split at h
  · simp at h
  · simp only [Except.ok.injEq] at h; subst h; exact hc

end Rml.Des
