/-
The connect → createStream → publish workflow run between the two session models, hop by hop:
each hop is one API call or one delivery of everything the peer just emitted (Exchange.lean), each
delivery is the message-level fold (SrvSteps / CliSteps), each message is the one the peer built
(WfSteps / WfPublish, by the payload round trip C13 and the AMF0 round trip C04 behind it).
-/
import Rml.Lemmas.WfPublish
namespace Rml.Workflow
open Rml Rml.Bytes Rml.Chunk Rml.Amf0 Rml.Msgs Rml.Sess Rml.SerHist Rml.Emit Rml.Link Rml.Exchange Rml.WfSteps

/-- the two sessions are in step in both directions: each has consumed everything the other sent -/
structure InStep (c : Cli.State) (v : Srv.State) : Prop where
  cs : Linked c.ser v.des
  sc : Linked v.ser c.des

theorem wire_one (p : Ser.Packet) (m : Msg) : wire [(p, m)] = p.bytes := by simp [wire]
theorem wire_two (p1 p2 : Ser.Packet) (m1 m2 : Msg) : wire [(p1, m1), (p2, m2)] = p1.bytes ++ p2.bytes := by simp [wire]

/-- **connect phase.**  In step, client disconnected.  `request_connection` returns a packet; delivered
    to the server it raises exactly one connection request, for the application name minus one trailing
    '/'; when the application accepts it, the response delivered to the client raises exactly
    "connection accepted" and makes the client announce its window and chunk size; delivered to the
    server those raise nothing; and the two are in step again, both connected. -/
theorem connect_phase {c c1 : Cli.State} {v : Srv.State} {now : Nat} {app : Bytes} {r1 : Cli.Res}
    (hin : InStep c v) (hw : CfgWF c.cfg) (hok : CfgOK c.cfg) (happ : Utf8.valid app = true)
    (htxn : c.nextTxn < 4294967296) (hfms : Utf8.valid v.fmsVersion = true)
    (h1 : Cli.requestConnection c now app = (c1, .ok r1)) :
    ∃ p1 v1, r1 = .out p1 ∧
      SrvPart.drain v now p1.bytes = (v1, .ok [.ev (.connectionRequested v.nextReq (trimApp app))]) ∧
      ∀ v2 rs2, Srv.acceptRequest v1 now v.nextReq = (v2, .ok rs2) →
        ∃ p2 c2 pa pb v3, rs2 = [.out p2] ∧
          CliPart.drain c1 now p2.bytes = (c2, .ok [.out pa, .ev .connectionAccepted, .out pb]) ∧
          SrvPart.drain v2 now (pa.bytes ++ pb.bytes) = (v3, .ok []) ∧
          InStep c2 v3 ∧
          c2 = { c with nextTxn := c.nextTxn + 1, txns := c2.txns, st := .connected, app := some app,
                        ser := c2.ser, des := c2.des } ∧
          v3 = { v with objectEncoding := 0, nextReq := v.nextReq + 1, reqs := v3.reqs, app := some (trimApp app),
                        connected := true, window := some c.cfg.windowAckSize, ser := v3.ser, des := v3.des } := by
  -- hop 1: the request
  obtain ⟨p1, body1, hr1, hst, hp1, he1, hc1⟩ := requestConnection_ok h1
  have hwf1 := connectCmd_wf c app hw happ htxn
  have hstep1 : SrvSteps.steps v now (msgs [(p1, ({ ts := epoch now, typ := 20, msid := 0, data := body1 } : Msg))]) = _ :=
    srv_steps_one v _ now _ _ (by rw [srv_stepMsg_of hwf1 hp1]; exact srv_connect v now _ c app)
  obtain ⟨core1, hd1, hl1⟩ := srv_recv now hin.cs he1 hstep1
  rw [wire_one] at hd1
  refine ⟨p1, _, hr1, hd1, ?_⟩
  intro v2 rs2 hacc
  -- hop 2: the acceptance
  have hreq : mapGet v.nextReq
      ({ v with objectEncoding := 0, nextReq := v.nextReq + 1,
                reqs := mapInsert v.nextReq (.connection (trimApp app) (F64.ofU32 c.nextTxn)) v.reqs,
                des := { core := core1, buf := [] } } : Srv.State).reqs =
      some (.connection (trimApp app) (F64.ofU32 c.nextTxn)) := by
    simp [mapInsert, mapGet]
  obtain ⟨p2, body2, hrs2, hp2, he2, hv2⟩ := acceptConnection_ok hreq hacc
  have hwf2 := connectResult_wf
    ({ v with objectEncoding := 0, nextReq := v.nextReq + 1,
              reqs := mapInsert v.nextReq (.connection (trimApp app) (F64.ofU32 c.nextTxn)) v.reqs,
              des := { core := core1, buf := [] } } : Srv.State) (trimApp app) (F64.ofU32 c.nextTxn)
    hfms (trimApp_valid happ) (F64.ofU32_lt _ htxn) (by show (0 : Nat) < _; decide)
  -- hop 3: the client takes the response
  have hc1txn : mapGet c.nextTxn c1.txns = some (.connection app) := by
    rw [hc1]; simp [mapInsert, mapGet]
  have hc1cfg : c1.cfg = c.cfg := by rw [hc1]
  have hpos1 : 1 ≤ c1.ser.maxCs := Safe.emits_cs_pos he1 (linked_pos hin.cs)
  obtain ⟨c2, pa, pb, hhm, hemc, hc2⟩ := cli_connectResult c1 now
    { ts := epoch now, typ := 20, msid := 0, data := body2 } _ app (trimApp app) c.nextTxn htxn hc1txn
    (by rw [hc1cfg]; exact hok) hpos1
  have hsc1 : Linked v.ser c1.des := by rw [hc1]; exact hin.sc
  have hstep3 : CliSteps.steps c1 now (msgs [(p2, ({ ts := epoch now, typ := 20, msid := 0, data := body2 } : Msg))]) = _ :=
    cli_steps_one c1 _ now _ _ (by rw [cli_stepMsg_of hwf2 hp2, hhm])
  obtain ⟨core3, hd3, hl3⟩ := cli_recv now hsc1 he2 hstep3
  rw [wire_one] at hd3
  -- hop 4: the server takes the announcements
  have hlcs : Linked c1.ser v2.des := by rw [hv2]; exact hl1
  obtain ⟨d4, hstep4⟩ := srv_steps_announce v2 now c.cfg.windowAckSize c.cfg.chunkSize (epoch now) 0
    (by have := hok.win; exact this) hok.cs
  rw [hc1cfg] at hemc
  obtain ⟨core4, hd4, hl4⟩ := srv_recv now hlcs hemc hstep4
  rw [wire_two] at hd4
  refine ⟨p2, _, pa, pb, _, hrs2, hd3, hd4, ⟨hl4, ?_⟩, ?_, ?_⟩
  · exact hl3
  · rw [hc2, hc1]
  · rw [hv2]

end Rml.Workflow
