/-
The connect → createStream → publish workflow run between the two session models, hop by hop:
each hop is one API call or one delivery of everything the peer just emitted (Exchange.lean), each
delivery is the message-level fold (SrvSteps / CliSteps), each message is the one the peer built
(WfSteps / WfPublish, by the payload round trip C13 and the AMF0 round trip C04 behind it).
-/
import Rml.Lemmas.WfPublish
import Rml.Lemmas.WfPlay
import Rml.Lemmas.Interop
namespace Rml.Workflow
open Rml Rml.Bytes Rml.Chunk Rml.Amf0 Rml.Msgs Rml.Sess Rml.SerHist Rml.Emit Rml.Link Rml.Exchange Rml.WfSteps

/-- the two sessions are in step in both directions: each has consumed everything the other sent -/
structure InStep (c : Cli.State) (v : Srv.State) : Prop where
  cs : Linked c.ser v.des
  sc : Linked v.ser c.des

theorem wire_one (p : Ser.Packet) (m : Msg) : wire [(p, m)] = p.bytes := by simp [wire]
theorem wire_two (p1 p2 : Ser.Packet) (m1 m2 : Msg) : wire [(p1, m1), (p2, m2)] = p1.bytes ++ p2.bytes := by simp [wire]

/-- **connect phase.**  In step, client disconnected.  `request_connection` returns a packet; delivered
    to the server it raises exactly one connection request, for the application name minus one trailing
    '/'; when the application accepts it, the response delivered to the client raises exactly
    "connection accepted" and makes the client announce its window and chunk size; delivered to the
    server those raise nothing; and the two are in step again, both connected. -/
theorem connect_phase {c c1 : Cli.State} {v : Srv.State} {n1 n2 n3 n4 n5 : Nat} {app : Bytes} {r1 : Cli.Res}
    (hin : InStep c v) (hw : CfgWF c.cfg) (hok : CfgOK c.cfg) (happ : Utf8.valid app = true)
    (htxn : c.nextTxn < 4294967296) (hfms : Utf8.valid v.fmsVersion = true)
    (h1 : Cli.requestConnection c n1 app = (c1, .ok r1)) :
    ∃ p1 v1, r1 = .out p1 ∧
      SrvPart.drain v n2 p1.bytes = (v1, .ok [.ev (.connectionRequested v.nextReq (trimApp app))]) ∧
      ∀ v2 rs2, Srv.acceptRequest v1 n3 v.nextReq = (v2, .ok rs2) →
        ∃ p2 c2 pa pb v3, rs2 = [.out p2] ∧
          CliPart.drain c1 n4 p2.bytes = (c2, .ok [.out pa, .ev .connectionAccepted, .out pb]) ∧
          SrvPart.drain v2 n5 (pa.bytes ++ pb.bytes) = (v3, .ok []) ∧
          InStep c2 v3 ∧
          c2 = { c with nextTxn := c.nextTxn + 1, txns := c2.txns, st := .connected, app := some app,
                        ser := c2.ser, des := c2.des } ∧
          v3 = { v with objectEncoding := 0, nextReq := v.nextReq + 1, reqs := v3.reqs, app := some (trimApp app),
                        connected := true, window := some c.cfg.windowAckSize, ser := v3.ser, des := v3.des } := by
  -- hop 1: the request
  obtain ⟨p1, body1, hr1, hst, hp1, he1, hc1⟩ := requestConnection_ok h1
  have hwf1 := connectCmd_wf c app hw happ htxn
  have hstep1 : SrvSteps.steps v n2 (msgs [(p1, ({ ts := epoch n1, typ := 20, msid := 0, data := body1 } : Msg))]) = _ :=
    srv_steps_one v _ n2 _ _ (by rw [srv_stepMsg_of hwf1 hp1]; exact srv_connect v n2 _ c app)
  obtain ⟨core1, hd1, hl1⟩ := srv_recv n2 hin.cs he1 hstep1
  rw [wire_one] at hd1
  refine ⟨p1, _, hr1, hd1, ?_⟩
  intro v2 rs2 hacc
  -- hop 2: the acceptance
  have hreq : mapGet v.nextReq
      ({ v with objectEncoding := 0, nextReq := v.nextReq + 1,
                reqs := mapInsert v.nextReq (.connection (trimApp app) (F64.ofU32 c.nextTxn)) v.reqs,
                des := { core := core1, buf := [] } } : Srv.State).reqs =
      some (.connection (trimApp app) (F64.ofU32 c.nextTxn)) := by
    simp [mapInsert, mapGet]
  obtain ⟨p2, body2, hrs2, hp2, he2, hv2⟩ := acceptConnection_ok hreq hacc
  have hwf2 := connectResult_wf
    ({ v with objectEncoding := 0, nextReq := v.nextReq + 1,
              reqs := mapInsert v.nextReq (.connection (trimApp app) (F64.ofU32 c.nextTxn)) v.reqs,
              des := { core := core1, buf := [] } } : Srv.State) (trimApp app) (F64.ofU32 c.nextTxn)
    hfms (trimApp_valid happ) (F64.ofU32_lt _ htxn) (by show (0 : Nat) < _; decide)
  -- hop 3: the client takes the response
  have hc1txn : mapGet c.nextTxn c1.txns = some (.connection app) := by
    rw [hc1]; simp [mapInsert, mapGet]
  have hc1cfg : c1.cfg = c.cfg := by rw [hc1]
  have hpos1 : 1 ≤ c1.ser.maxCs := Safe.emits_cs_pos he1 (linked_pos hin.cs)
  obtain ⟨c2, pa, pb, hhm, hemc, hc2⟩ := cli_connectResult c1 n4
    { ts := epoch n3, typ := 20, msid := 0, data := body2 } _ app (trimApp app) c.nextTxn htxn hc1txn
    (by rw [hc1cfg]; exact hok) hpos1
  have hsc1 : Linked v.ser c1.des := by rw [hc1]; exact hin.sc
  have hstep3 : CliSteps.steps c1 n4 (msgs [(p2, ({ ts := epoch n3, typ := 20, msid := 0, data := body2 } : Msg))]) = _ :=
    cli_steps_one c1 _ n4 _ _ (by rw [cli_stepMsg_of hwf2 hp2, hhm])
  obtain ⟨core3, hd3, hl3⟩ := cli_recv n4 hsc1 he2 hstep3
  rw [wire_one] at hd3
  -- hop 4: the server takes the announcements
  have hlcs : Linked c1.ser v2.des := by rw [hv2]; exact hl1
  obtain ⟨d4, hstep4⟩ := srv_steps_announce v2 n5 c.cfg.windowAckSize c.cfg.chunkSize (epoch n4) 0
    (by have := hok.win; exact this) hok.cs
  rw [hc1cfg] at hemc
  obtain ⟨core4, hd4, hl4⟩ := srv_recv n5 hlcs hemc hstep4
  rw [wire_two] at hd4
  refine ⟨p2, _, pa, pb, _, hrs2, hd3, hd4, ⟨hl4, ?_⟩, ?_, ?_⟩
  · exact hl3
  · rw [hc2, hc1]
  · rw [hv2]

/-- **publish phase.**  In step, both connected.  `request_publishing` returns a createStream packet;
    the server answers it inside `handle_input`; the client, on the answer, sends `publish` on the new
    stream; the server raises exactly one publish request, for the connected application and the
    requested key and mode; when the application accepts it, the status delivered to the client raises
    exactly "publish accepted".  Afterwards the client is publishing on the stream id the server holds as
    publishing under that key, and the two are in step — the state `C02_publish_media` starts from. -/
theorem publish_phase {c c1 : Cli.State} {v : Srv.State} {n1 n2 n3 n4 n5 n6 : Nat} {key appS : Bytes} {t : Cli.PublishType} {r1 : Cli.Res}
    (hin : InStep c v) (htxn : c.nextTxn < 4294967296) (hns : v.nextStream < 4294967296)
    (hkey : Utf8.valid key = true) (hkl : key.length ≤ 65535)
    (hvc : v.connected = true) (hva : v.app = some appS)
    (h1 : Cli.requestStream c n1 (.publish key t) = (c1, .ok r1)) :
    ∃ p1 v1 p2 c2 p3 v2, r1 = .out p1 ∧
      SrvPart.drain v n2 p1.bytes = (v1, .ok [.out p2]) ∧
      CliPart.drain c1 n3 p2.bytes = (c2, .ok [.out p3]) ∧
      SrvPart.drain v1 n4 p3.bytes = (v2, .ok [.ev (.publishRequested v.nextReq appS key (modeOf t))]) ∧
      ∀ v3 rs3, Srv.acceptRequest v2 n5 v.nextReq = (v3, .ok rs3) →
        ∃ p4 p5 c3, rs3 = [.out p4, .out p5] ∧
          CliPart.drain c2 n6 (p4.bytes ++ p5.bytes) = (c3, .ok [.ev .publishAccepted]) ∧
          InStep c3 v3 ∧
          c3 = { c with nextTxn := c.nextTxn + 1, txns := c3.txns, st := .publishing, activeStream := some v.nextStream,
                        ser := c3.ser, des := c3.des } ∧
          v3 = { v with nextStream := v.nextStream + 1, streams := v3.streams, nextReq := v.nextReq + 1, reqs := v3.reqs,
                        ser := v3.ser, des := v3.des } ∧
          mapGet v.nextStream v3.streams = some (.publishing key (modeOf t)) := by
  -- hop 1: createStream request
  obtain ⟨p1, body1, hr1, hst, hp1, he1, hc1⟩ := requestStream_ok h1
  have hwf1 := createStreamCmd_wf c htxn
  obtain ⟨v1', p2, body2, hhm1, hp2, he2, hv1⟩ := srv_createStream v n2
    { ts := epoch n1, typ := 20, msid := 0, data := body1 } c (linked_pos hin.sc)
  have hstep1 : SrvSteps.steps v n2 (msgs [(p1, ({ ts := epoch n1, typ := 20, msid := 0, data := body1 } : Msg))]) = _ :=
    srv_steps_one v _ n2 _ _ (by rw [srv_stepMsg_of hwf1 hp1]; exact hhm1)
  obtain ⟨core1, hd1, hl1⟩ := srv_recv n2 hin.cs he1 hstep1
  rw [wire_one] at hd1
  -- hop 2: the client takes the stream id and sends publish
  have hwf2 := createStreamResult_wf (F64.ofU32 c.nextTxn) v.nextStream (F64.ofU32_lt _ htxn) hns
  have hc1txn : mapGet c.nextTxn c1.txns = some (.createStream (.publish key t)) := by
    rw [hc1]; simp [mapInsert, mapGet]
  have hpos1 : 1 ≤ c1.ser.maxCs := Safe.emits_cs_pos he1 (linked_pos hin.cs)
  obtain ⟨c2, p3, body3, hhm2, hp3, he3, hc2⟩ := cli_createStreamResult_publish c1 n3
    { ts := epoch n2, typ := 20, msid := 0, data := body2 } c.nextTxn v.nextStream key t htxn hns hc1txn hkl hpos1
  have hsc1 : Linked v.ser c1.des := by rw [hc1]; exact hin.sc
  have hstep2 : CliSteps.steps c1 n3 (msgs [(p2, ({ ts := epoch n2, typ := 20, msid := 0, data := body2 } : Msg))]) = _ :=
    cli_steps_one c1 _ n3 _ _ (by rw [cli_stepMsg_of hwf2 hp2, hhm2])
  obtain ⟨core2, hd2, hl2⟩ := cli_recv n3 hsc1 he2 hstep2
  rw [wire_one] at hd2
  -- hop 3: the server takes the publish command
  have hwf3 := publishCmd_wf key t hkey
  have hstep3 : SrvSteps.steps ({ v1' with des := { core := core1, buf := [] } } : Srv.State) n4
      (msgs [(p3, ({ ts := epoch n3, typ := 20, msid := v.nextStream, data := body3 } : Msg))]) = _ :=
    srv_steps_one _ _ n4 _ _ (by
      rw [srv_stepMsg_of hwf3 hp3]
      exact srv_publish _ n4 _ key t appS (by rw [hv1]; exact hvc) (by rw [hv1]; exact hva))
  obtain ⟨core3, hd3, hl3⟩ := srv_recv n4 (v := { v1' with des := { core := core1, buf := [] } }) hl1 he3 hstep3
  rw [wire_one] at hd3
  have hnr : ({ v1' with des := { core := core1, buf := [] } } : Srv.State).nextReq = v.nextReq := by rw [hv1]
  refine ⟨p1, _, p2, _, p3, _, hr1, hd1, hd2, (by rw [← hnr]; exact hd3), ?_⟩
  intro v3 rs3 hacc
  -- hop 4: the acceptance
  rw [← hnr] at hacc
  obtain ⟨p4, p5, b4, b5, hrs3, hp4, hp5, he4, _, hv3⟩ := acceptPublish_ok
    (key := key) (mode := modeOf t) (sid := v.nextStream) (by simp [mapInsert, mapGet]) hns hacc
  -- hop 5: the client takes the status
  have hstepA : CliSteps.stepMsg ({ c2 with des := { core := core2, buf := [] } } : Cli.State) n6
      { ts := epoch n5, typ := 4, msid := v.nextStream, data := b4 } =
        .ok (({ c2 with des := { core := core2, buf := [] } } : Cli.State), []) :=
    cli_step_streamBegin _ n6 v.nextStream _ _ 4 b4 hns hp4
  have hstepB : CliSteps.stepMsg ({ c2 with des := { core := core2, buf := [] } } : Cli.State) n6
      { ts := epoch n5, typ := 20, msid := v.nextStream, data := b5 } =
        .ok (({ c2 with des := { core := core2, buf := [] }, st := .publishing } : Cli.State), [.ev .publishAccepted]) := by
    rw [cli_stepMsg_of (publishStatus_wf key hkey) hp5, cli_publishStatus _ n6 _ key (by rw [hc2])]
  have hstep5 := cli_steps_two _ _ _ n6 _ _ _ _ hstepA hstepB
  obtain ⟨core5, hd5, hl5⟩ := cli_recv n6 (c := { c2 with des := { core := core2, buf := [] } }) hl2 he4 hstep5
  rw [wire_two] at hd5
  refine ⟨p4, p5, _, hrs3, hd5, ⟨?_, hl5⟩, ?_, ?_, ?_⟩
  · rw [hv3]; exact hl3
  · rw [hc2, hc1]
  · rw [hv3, hv1]
  · rw [hv3]; simp [mapInsert, mapGet]

/-! ### the server's banner -/

theorem cli_steps_cons {c c1 c2 : Cli.State} {now : Nat} {m : Msg} {ms : List Msg} {r1 r2 : List Cli.Res}
    (h1 : CliSteps.stepMsg c now m = .ok (c1, r1)) (h2 : CliSteps.steps c1 now ms = .ok (c2, r2)) :
    CliSteps.steps c now (m :: ms) = .ok (c2, r1 ++ r2) := by
  simp only [CliSteps.steps, h1, h2]

def peerBw (n : Nat) : RtmpMsg := .setPeerBandwidth n .dynamic
def onBwDone : RtmpMsg := .amf0Command (str "onBWDone") 0 .null [.number 0x40C0000000000000]

theorem setcs_range {ser ser' : Ser.State} {n ts : Nat} {p : Ser.Packet} (h : Ser.setMaxChunkSize ser n ts = .ok (ser', p)) :
    1 ≤ n ∧ n ≤ 2147483647 := by
  unfold Ser.setMaxChunkSize at h
  split at h
  · simp at h
  · rename_i hn; simp only [maxChunkSize] at hn; omega

/-- what `ServerSession::new` returned and put on the wire -/
theorem new_ok {cfg : Srv.Config} {now : Nat} {v0 : Srv.State} {rs0 : List Srv.Res} (h : Srv.new cfg now = .ok (v0, rs0)) :
    ∃ p1 p2 p3 p4 b3 b4 rest restR,
      rs0 = [.out p1, .out p2, .out p3, .out p4] ++ restR ∧
      (1 ≤ cfg.chunkSize ∧ cfg.chunkSize ≤ 2147483647) ∧
      toPayload (streamBegin 0) = .ok (4, b3) ∧ toPayload (peerBw cfg.peerBandwidth) = .ok (6, b4) ∧
      Emits {} v0.ser ([(p1, { ts := 0, typ := 1, msid := 0, data := be32 cfg.chunkSize }),
                        (p2, { ts := epoch now, typ := 5, msid := 0, data := be32 cfg.windowAckSize }),
                        (p3, { ts := epoch now, typ := 4, msid := 0, data := b3 }),
                        (p4, { ts := epoch now, typ := 6, msid := 0, data := b4 })] ++ rest) ∧
      ((cfg.sendOnBwDone = false ∧ rest = [] ∧ restR = []) ∨
       (cfg.sendOnBwDone = true ∧ ∃ p5 b5, toPayload onBwDone = .ok (20, b5) ∧ restR = [.out p5] ∧
          rest = [(p5, { ts := epoch now, typ := 20, msid := 0, data := b5 })])) ∧
      v0 = { ({ fmsVersion := cfg.fmsVersion } : Srv.State) with ser := v0.ser } := by
  unfold Srv.new at h
  simp only at h
  split at h
  · simp at h
  · simp at h
  · rename_i ser1 p1 hset
    have hrange := setcs_range hset
    have e1 := Emits.setcs hset (by decide)
    split at h
    · simp at h
    · rename_i s2 p2 hs2
      obtain ⟨t2, b2, hp2, he2, hq2⟩ := srv_send_exact hs2 trivial (epoch_lt now) (by decide)
      simp only [toPayload, Except.ok.injEq, Prod.mk.injEq] at hp2
      obtain ⟨rfl, rfl⟩ := hp2
      split at h
      · simp at h
      · rename_i s3 p3 hs3
        obtain ⟨t3, b3, hp3, he3, hq3⟩ := srv_send_exact hs3 trivial (epoch_lt now) (by decide)
        have ht3 := uc_typ hp3; subst ht3
        split at h
        · simp at h
        · rename_i s4 p4 hs4
          obtain ⟨t4, b4, hp4, he4, hq4⟩ := srv_send_exact hs4 trivial (epoch_lt now) (by decide)
          have ht4 : t4 = 6 := by
            simp only [toPayload, Except.ok.injEq, Prod.mk.injEq] at hp4; exact hp4.1.symm
          subst ht4
          have e4 := ((e1.trans he2).trans he3).trans he4
          split at h
          · rename_i hbw
            split at h
            · simp at h
            · rename_i s5 p5 hs5
              obtain ⟨t5, b5, hp5, he5, hq5⟩ := srv_send_exact hs5 trivial (epoch_lt now) (by decide)
              have ht5 := cmd_typ hp5; subst ht5
              simp only [Except.ok.injEq, Prod.mk.injEq] at h
              obtain ⟨h1, h2⟩ := h
              subst h1; subst h2
              refine ⟨p1, p2, p3, p4, b3, b4, [(p5, _)], [.out p5], rfl, hrange, hp3, hp4, ?_, Or.inr ⟨hbw, p5, b5, hp5, rfl, rfl⟩, ?_⟩
              · exact e4.trans he5
              · rw [hq5, hq4, hq3, hq2]
          · rename_i hbw
            simp only [Except.ok.injEq, Prod.mk.injEq] at h
            obtain ⟨h1, h2⟩ := h
            subst h1; subst h2
            refine ⟨p1, p2, p3, p4, b3, b4, [], [], rfl, hrange, hp3, hp4, ?_, Or.inl ⟨by simpa using hbw, rfl, rfl⟩, ?_⟩
            · simpa using e4
            · rw [hq4, hq3, hq2]

theorem cli_step_peerBw (c : Cli.State) (now n ts msid : Nat) (body : Bytes) (hn : n < 4294967296)
    (hp : toPayload (peerBw n) = .ok (6, body)) :
    CliSteps.stepMsg c now { ts := ts, typ := 6, msid := msid, data := body } =
      .ok (c, [.unhandled { ts := ts, typ := 6, msid := msid, data := body }]) := by
  have hw : C13.WF (peerBw n) := by unfold peerBw C13.WF C13.U32; exact hn
  rw [cli_stepMsg_of hw hp]
  simp only [peerBw, Cli.handleMessage]

theorem chm_other (c : Cli.State) (now : Nat) (p : Msg) (name : Bytes) (tid : Nat) (obj : Val) (args : List Val)
    (h1 : name ≠ str "_result") (h2 : name ≠ str "_error") (h3 : name ≠ str "onStatus") :
    Cli.handleMessage c now p (.amf0Command name tid obj args) =
      (c, .ok [.ev (.unhandleableCommand name tid obj args)]) := by
  unfold Cli.handleMessage; dsimp only; rw [if_neg h1, if_neg h2, if_neg h3]

theorem cli_step_onBwDone (c : Cli.State) (now ts msid : Nat) (body : Bytes) (hp : toPayload onBwDone = .ok (20, body)) :
    CliSteps.stepMsg c now { ts := ts, typ := 20, msid := msid, data := body } =
      .ok (c, [.ev (.unhandleableCommand (str "onBWDone") 0 .null [.number 0x40C0000000000000])]) := by
  have hw : C13.WF onBwDone := by
    unfold onBwDone C13.WF
    exact ⟨by decide, by decide, trivial, by show (4665729213955833856 : Nat) < _; decide, trivial⟩
  rw [cli_stepMsg_of hw hp]
  unfold onBwDone
  rw [chm_other _ _ _ _ _ _ _ (by decide) (by decide) (by decide)]

/-- the events the banner raises at a client: the bandwidth message is handed up unhandled, and so is
    `onBWDone` when the server is configured to send it -/
def bannerEvents (scfg : Srv.Config) (now : Nat) (b4 : Bytes) : List Cli.Res :=
  .unhandled { ts := epoch now, typ := 6, msid := 0, data := b4 } ::
    (if scfg.sendOnBwDone then [.ev (.unhandleableCommand (str "onBWDone") 0 .null [.number 0x40C0000000000000])] else [])

def bytesS (rs : List Srv.Res) : Bytes := ((SrvEmit.outs rs).map (·.bytes)).flatten
def bytesC (rs : List Cli.Res) : Bytes := ((CliEmit.outs rs).map (·.bytes)).flatten

/-- **banner phase.**  A new server session and a new client session: once the packets the server's
    constructor returned are delivered, the two are in step; the client has adopted the server's chunk
    size and window, raised no protocol event and sent nothing. -/
theorem banner_phase {scfg : Srv.Config} {now n1 : Nat} {v0 : Srv.State} {rs0 : List Srv.Res} (ccfg : Cli.Config)
    (hnew : Srv.new scfg now = .ok (v0, rs0)) (hw : scfg.windowAckSize < 4294967296) (hbw : scfg.peerBandwidth < 4294967296) :
    ∃ c1 b4, CliPart.drain ({ cfg := ccfg } : Cli.State) n1 (bytesS rs0) = (c1, .ok (bannerEvents scfg now b4)) ∧
      InStep c1 v0 ∧
      c1 = { ({ cfg := ccfg } : Cli.State) with window := some scfg.windowAckSize, des := c1.des } ∧
      v0 = { ({ fmsVersion := scfg.fmsVersion } : Srv.State) with ser := v0.ser } := by
  obtain ⟨p1, p2, p3, p4, b3, b4, rest, restR, hrs, hcs, hp3, hp4, hem, hrest, hv0⟩ := new_ok hnew
  have s1 := cli_step_setcs ({ cfg := ccfg } : Cli.State) n1 scfg.chunkSize 0 hcs
  have hlink0 : Linked ({} : Ser.State) ({ cfg := ccfg } : Cli.State).des := linked_init
  rcases hrest with ⟨hf, hr1, hr2⟩ | ⟨ht, p5, b5, hp5, hr2, hr1⟩
  · subst hr1; subst hr2
    have hsteps := cli_steps_cons s1 (cli_steps_cons (cli_step_windowAck _ n1 scfg.windowAckSize (epoch now) hw)
      (cli_steps_cons (cli_step_streamBegin _ n1 0 (epoch now) 0 4 b3 (by decide) hp3)
        (cli_steps_one _ _ n1 _ _ (cli_step_peerBw _ n1 scfg.peerBandwidth (epoch now) 0 b4 hbw hp4))))
    simp only [List.append_nil] at hem
    obtain ⟨core', hd, hl⟩ := cli_recv n1 hlink0 hem hsteps
    refine ⟨?c1, b4, ?g1, ?g2, ?g3, hv0⟩
    case g1 =>
      have hb : bytesS rs0 = wire [(p1, ({ ts := 0, typ := 1, msid := 0, data := be32 scfg.chunkSize } : Msg)),
          (p2, { ts := epoch now, typ := 5, msid := 0, data := be32 scfg.windowAckSize }),
          (p3, { ts := epoch now, typ := 4, msid := 0, data := b3 }),
          (p4, { ts := epoch now, typ := 6, msid := 0, data := b4 })] := by
        rw [hrs]; simp [bytesS, SrvEmit.outs, wire]
      have hev : bannerEvents scfg now b4 = [.unhandled { ts := epoch now, typ := 6, msid := 0, data := b4 }] := by
        simp [bannerEvents, hf]
      simp only [List.nil_append] at hd
      rw [hb, hev]; exact hd
    case g2 => exact ⟨by rw [hv0]; exact linked_init, hl⟩
    case g3 => rfl
  · subst hr1; subst hr2
    have hsteps := cli_steps_cons s1 (cli_steps_cons (cli_step_windowAck _ n1 scfg.windowAckSize (epoch now) hw)
      (cli_steps_cons (cli_step_streamBegin _ n1 0 (epoch now) 0 4 b3 (by decide) hp3)
        (cli_steps_cons (cli_step_peerBw _ n1 scfg.peerBandwidth (epoch now) 0 b4 hbw hp4)
          (cli_steps_one _ _ n1 _ _ (cli_step_onBwDone _ n1 (epoch now) 0 b5 hp5)))))
    simp only [List.cons_append, List.nil_append] at hem
    obtain ⟨core', hd, hl⟩ := cli_recv n1 hlink0 hem hsteps
    refine ⟨?c1', b4, ?g1', ?g2', ?g3', hv0⟩
    case g1' =>
      have hb : bytesS rs0 = wire [(p1, ({ ts := 0, typ := 1, msid := 0, data := be32 scfg.chunkSize } : Msg)),
          (p2, { ts := epoch now, typ := 5, msid := 0, data := be32 scfg.windowAckSize }),
          (p3, { ts := epoch now, typ := 4, msid := 0, data := b3 }),
          (p4, { ts := epoch now, typ := 6, msid := 0, data := b4 }),
          (p5, { ts := epoch now, typ := 20, msid := 0, data := b5 })] := by
        rw [hrs]; simp [bytesS, SrvEmit.outs, wire]
      have hev : bannerEvents scfg now b4 = [.unhandled { ts := epoch now, typ := 6, msid := 0, data := b4 },
          .ev (.unhandleableCommand (str "onBWDone") 0 .null [.number 0x40C0000000000000])] := by
        simp [bannerEvents, ht]
      simp only [List.nil_append, List.cons_append] at hd
      rw [hb, hev]; exact hd
    case g2' => exact ⟨by rw [hv0]; exact linked_init, hl⟩
    case g3' => rfl

/-! ### from two new sessions to a publishing pair -/

/-- what the server configuration must satisfy for its values to be the Rust types' values -/
structure SCfgWF (scfg : Srv.Config) : Prop where
  win : scfg.windowAckSize < 4294967296
  bw : scfg.peerBandwidth < 4294967296
  fms : Utf8.valid scfg.fmsVersion = true

/-- the state `C02_publish_media` starts from -/
structure PublishReady (c : Cli.State) (v : Srv.State) (sid : Nat) (app key : Bytes) (mode : Srv.PublishMode) : Prop where
  inStep : InStep c v
  cst : c.st = .publishing
  cact : c.activeStream = some sid
  sid32 : sid < 4294967296
  vconn : v.connected = true
  vapp : v.app = some app
  vstream : mapGet sid v.streams = some (.publishing key mode)

/-- **C02, publish workflow.**  A new client session (any configuration whose chunk size the library
    accepts) and a new server session (any configuration `ServerSession::new` accepts).  The application
    code on each side does what the API asks: forwards returned packets to the peer, accepts the
    requests it is shown, and calls `request_connection` then `request_publishing`.  Whatever those
    four application calls return when they return Ok (each call of the scenario reads the clock
    anew: `clk i`, arbitrary), every `handle_input` in between succeeds and
    returns exactly the results listed — the server is shown exactly one connection request (for the
    application name minus one trailing '/') and exactly one publish request (that application, the
    requested key and mode), the client exactly "connection accepted" then "publish accepted" — and the
    pair ends `PublishReady` on stream 1. -/
theorem publish_workflow (ccfg : Cli.Config) (scfg : Srv.Config) (clk : Nat → Nat) (app key : Bytes) (t : Cli.PublishType)
    (hcw : CfgWF ccfg) (hco : CfgOK ccfg) (hsw : SCfgWF scfg)
    (happ : Utf8.valid app = true) (hkey : Utf8.valid key = true) (hkl : key.length ≤ 65535)
    {v0 : Srv.State} {rs0 : List Srv.Res} (hnew : Srv.new scfg (clk 0) = .ok (v0, rs0)) :
    ∃ c1 b4, CliPart.drain ({ cfg := ccfg } : Cli.State) (clk 1) (bytesS rs0) = (c1, .ok (bannerEvents scfg (clk 0) b4)) ∧
    ∀ c2 r1, Cli.requestConnection c1 (clk 2) app = (c2, .ok r1) →
    ∃ p1 v1, r1 = .out p1 ∧
      SrvPart.drain v0 (clk 3) p1.bytes = (v1, .ok [.ev (.connectionRequested 0 (trimApp app))]) ∧
    ∀ v2 rs2, Srv.acceptRequest v1 (clk 4) 0 = (v2, .ok rs2) →
    ∃ p2 c3 pa pb v3, rs2 = [.out p2] ∧
      CliPart.drain c2 (clk 5) p2.bytes = (c3, .ok [.out pa, .ev .connectionAccepted, .out pb]) ∧
      SrvPart.drain v2 (clk 6) (pa.bytes ++ pb.bytes) = (v3, .ok []) ∧
    ∀ c4 r3, Cli.requestStream c3 (clk 7) (.publish key t) = (c4, .ok r3) →
    ∃ p3 v4 p4 c5 p5 v5, r3 = .out p3 ∧
      SrvPart.drain v3 (clk 8) p3.bytes = (v4, .ok [.out p4]) ∧
      CliPart.drain c4 (clk 9) p4.bytes = (c5, .ok [.out p5]) ∧
      SrvPart.drain v4 (clk 10) p5.bytes = (v5, .ok [.ev (.publishRequested 1 (trimApp app) key (modeOf t))]) ∧
    ∀ v6 rs6, Srv.acceptRequest v5 (clk 11) 1 = (v6, .ok rs6) →
    ∃ p6 p7 c6, rs6 = [.out p6, .out p7] ∧
      CliPart.drain c5 (clk 12) (p6.bytes ++ p7.bytes) = (c6, .ok [.ev .publishAccepted]) ∧
      PublishReady c6 v6 1 (trimApp app) key (modeOf t) := by
  obtain ⟨c1, b4, hd0, hin1, hc1, hv0⟩ := banner_phase ccfg hnew hsw.win hsw.bw
  refine ⟨c1, b4, hd0, ?_⟩
  intro c2 r1 h1
  have hc1cfg : c1.cfg = ccfg := by rw [hc1]
  have hc1txn : c1.nextTxn = 1 := by rw [hc1]
  have hv0fms : v0.fmsVersion = scfg.fmsVersion := by rw [hv0]
  have hv0req : v0.nextReq = 0 := by rw [hv0]
  have hv0ns : v0.nextStream = 1 := by rw [hv0]
  obtain ⟨p1, v1, hr1, hd1, hrest⟩ := connect_phase hin1 (by rw [hc1cfg]; exact hcw) (by rw [hc1cfg]; exact hco) happ
    (by rw [hc1txn]; decide) (by rw [hv0fms]; exact hsw.fms) h1
  rw [hv0req] at hd1 hrest
  refine ⟨p1, v1, hr1, hd1, ?_⟩
  intro v2 rs2 h2
  obtain ⟨p2, c3, pa, pb, v3, hrs2, hd2, hd3, hin3, hc3, hv3⟩ := hrest v2 rs2 h2
  refine ⟨p2, c3, pa, pb, v3, hrs2, hd2, hd3, ?_⟩
  intro c4 r3 h3
  have hc3txn : c3.nextTxn = 2 := by rw [hc3, hc1txn]
  have hv3ns : v3.nextStream = 1 := by rw [hv3, hv0ns]
  have hv3req : v3.nextReq = 1 := by rw [hv3]
  have hv3c : v3.connected = true := by rw [hv3]
  have hv3a : v3.app = some (trimApp app) := by rw [hv3]
  obtain ⟨p3, v4, p4, c5, p5, v5, hr3, hd4, hd5, hd6, hrest2⟩ := publish_phase (appS := trimApp app) hin3
    (by rw [hc3txn]; decide) (by rw [hv3ns]; decide) hkey hkl hv3c hv3a h3
  rw [hv3req] at hd6 hrest2
  refine ⟨p3, v4, p4, c5, p5, v5, hr3, hd4, hd5, hd6, ?_⟩
  intro v6 rs6 h6
  obtain ⟨p6, p7, c6, hrs6, hd7, hin6, hc6, hv6, hstream⟩ := hrest2 v6 rs6 h6
  rw [hv3ns] at hc6 hstream
  refine ⟨p6, p7, c6, hrs6, hd7, hin6, by rw [hc6], by rw [hc6], by decide, ?_, ?_, hstream⟩
  · rw [hv6]; exact hv3c
  · rw [hv6]; exact hv3a

/-! ### media and stop on a publishing pair -/

theorem publishAll_des (items : List Interop.Item) : ∀ (c c' : Cli.State) (ps : List Ser.Packet) (sid : Nat),
    c.st = .publishing → c.activeStream = some sid → sid < 4294967296 → (∀ it ∈ items, it.ts < 4294967296) →
    Interop.publishAll c items = some (c', ps) → c'.des = c.des := by
  induction items with
  | nil =>
    intro c c' ps sid _ _ _ _ h
    simp only [Interop.publishAll, Option.some.injEq, Prod.mk.injEq] at h
    rw [← h.1]
  | cons it rest ih =>
    intro c c' ps sid hs ha hsid hts h
    simp only [Interop.publishAll] at h
    split at h
    · rename_i c1 p hpm
      split at h
      · rename_i c2 ps2 hrest
        simp only [Option.some.injEq, Prod.mk.injEq] at h
        obtain ⟨h1, _⟩ := h
        subst h1
        obtain ⟨_, _, hc1⟩ := Interop.publishMedia_emits hs ha hsid (hts it (List.mem_cons_self ..)) hpm
        have := ih c1 c2 ps2 sid (by rw [hc1]; exact hs) (by rw [hc1]; exact ha) hsid
          (fun x hx => hts x (List.mem_cons_of_mem _ hx)) hrest
        rw [this, hc1]
      · simp at h
    · simp at h

/-- **media on a publishing pair**: any items, any droppable subset omitted; the server raises exactly
    the delivered items under the application and key, and the pair is a publishing pair again -/
theorem publish_items {c c' : Cli.State} {v : Srv.State} {sid : Nat} {app key : Bytes} {mode : Srv.PublishMode}
    (hr : PublishReady c v sid app key mode) (items : List Interop.Item) (ps : List Ser.Packet) (now : Nat) (mask : List Bool)
    (hts : ∀ it ∈ items, it.ts < 4294967296) (hpub : Interop.publishAll c items = some (c', ps)) :
    let kept := keepSel mask (ps.zip (items.map (Interop.Item.msg sid)))
    ∃ v', SrvPart.drain v now (wire kept) = (v', .ok ((msgs kept).flatMap (Interop.evOf app key))) ∧
      PublishReady c' v' sid app key mode := by
  intro kept
  obtain ⟨core', hd, hl⟩ := Interop.publish_media c c' v items ps sid now app key mode mask hr.cst hr.cact hr.sid32 hts
    hr.vconn hr.vapp hr.vstream hr.inStep.cs hpub
  obtain ⟨_, _, hst', hact'⟩ := Interop.publishAll_emits items c c' ps sid hr.cst hr.cact hr.sid32 hts hpub
  have hdes := publishAll_des items c c' ps sid hr.cst hr.cact hr.sid32 hts hpub
  exact ⟨_, hd, ⟨hl, by rw [hdes]; exact hr.inStep.sc⟩, hst', hact', hr.sid32, hr.vconn, hr.vapp, hr.vstream⟩

/-- **stop on a publishing pair**: `stop_publishing` returns one packet; delivered, the server raises
    exactly "publish finished" for the application and key, and forgets the stream -/
theorem stop_publishing {c c1 : Cli.State} {v : Srv.State} {sid : Nat} {app key : Bytes} {mode : Srv.PublishMode}
    {n1 n2 : Nat} {rs : List Cli.Res}
    (hr : PublishReady c v sid app key mode) (h : Cli.stop c n1 false = (c1, .ok rs)) :
    ∃ p v1, rs = [.out p] ∧ SrvPart.drain v n2 p.bytes = (v1, .ok [.ev (.publishFinished app key)]) ∧
      InStep c1 v1 ∧ c1.st = .connected ∧ c1.activeStream = none ∧ mapGet sid v1.streams = none := by
  obtain ⟨p, body, hrs, hp, he, hc1⟩ := stop_ok (play := false) (by simp [hr.cst]) hr.cact hr.sid32 h
  have hstep : SrvSteps.steps v n2 (msgs [(p, ({ ts := epoch n1, typ := 20, msid := sid, data := body } : Msg))]) = _ :=
    srv_steps_one v _ n2 _ _ (by
      rw [srv_stepMsg_of (deleteStreamCmd_wf sid hr.sid32) hp]
      exact srv_deleteStream v n2 _ sid app _ hr.sid32 hr.vconn hr.vapp hr.vstream)
  obtain ⟨core1, hd, hl⟩ := srv_recv n2 hr.inStep.cs he hstep
  rw [wire_one] at hd
  refine ⟨p, _, hrs, hd, ⟨hl, ?_⟩, by rw [hc1], by rw [hc1], ?_⟩
  · rw [hc1]; exact hr.inStep.sc
  · exact mapGet_mapRemove_self sid v.streams

/-! ### play -/

theorem srv_steps_cons {v v1 v2 : Srv.State} {now : Nat} {m : Msg} {ms : List Msg} {r1 r2 : List Srv.Res}
    (h1 : SrvSteps.stepMsg v now m = .ok (v1, r1)) (h2 : SrvSteps.steps v1 now ms = .ok (v2, r2)) :
    SrvSteps.steps v now (m :: ms) = .ok (v2, r1 ++ r2) := by
  simp only [SrvSteps.steps, h1, h2]

/-- **play phase.**  In step, both connected.  `request_playback` returns a createStream packet; the
    server answers inside `handle_input`; the client, on the answer, sends its buffer length and `play`
    on the new stream; the server raises exactly one play request (connected application, requested
    key); when the application accepts it, the five messages delivered to the client raise the reset
    notice (as an unhandled status) and exactly "playback accepted".  Afterwards the client is playing
    the stream id the server holds as playing that key, in step — the state `C02_play_media` starts from. -/
theorem play_phase {c c1 : Cli.State} {v : Srv.State} {n1 n2 n3 n4 n5 n6 : Nat} {key appS : Bytes} {r1 : Cli.Res}
    (hin : InStep c v) (htxn : c.nextTxn < 4294967296) (hns : v.nextStream < 4294967296)
    (hkey : Utf8.valid key = true) (hkl : key.length ≤ 65535) (hbuf : c.cfg.bufferLengthMs < 4294967296)
    (hvc : v.connected = true) (hva : v.app = some appS)
    (h1 : Cli.requestStream c n1 (.play key) = (c1, .ok r1)) :
    ∃ p1 v1 p2 c2 pa pb v2, r1 = .out p1 ∧
      SrvPart.drain v n2 p1.bytes = (v1, .ok [.out p2]) ∧
      CliPart.drain c1 n3 p2.bytes = (c2, .ok [.out pa, .out pb]) ∧
      SrvPart.drain v1 n4 (pa.bytes ++ pb.bytes) =
        (v2, .ok [.ev (.playRequested v.nextReq appS key .liveOrRecorded none false v.nextStream)]) ∧
      ∀ v3 rs3, Srv.acceptRequest v2 n5 v.nextReq = (v3, .ok rs3) →
        ∃ c3, CliPart.drain c2 n6 (bytesS rs3) =
            (c3, .ok [.ev (.unhandleableOnStatus (str "NetStream.Play.Reset")), .ev .playbackAccepted]) ∧
          (SrvEmit.outs rs3).length = 5 ∧
          InStep c3 v3 ∧
          c3 = { c with nextTxn := c.nextTxn + 1, txns := c3.txns, st := .playing, activeStream := some v.nextStream,
                        ser := c3.ser, des := c3.des } ∧
          v3 = { v with nextStream := v.nextStream + 1, streams := v3.streams, nextReq := v.nextReq + 1, reqs := v3.reqs,
                        ser := v3.ser, des := v3.des } ∧
          mapGet v.nextStream v3.streams = some (.playing key) := by
  -- hop 1: createStream request
  obtain ⟨p1, body1, hr1, hst, hp1, he1, hc1⟩ := requestStream_ok h1
  have hwf1 := createStreamCmd_wf c htxn
  obtain ⟨v1', p2, body2, hhm1, hp2, he2, hv1⟩ := srv_createStream v n2
    { ts := epoch n1, typ := 20, msid := 0, data := body1 } c (linked_pos hin.sc)
  have hstep1 : SrvSteps.steps v n2 (msgs [(p1, ({ ts := epoch n1, typ := 20, msid := 0, data := body1 } : Msg))]) = _ :=
    srv_steps_one v _ n2 _ _ (by rw [srv_stepMsg_of hwf1 hp1]; exact hhm1)
  obtain ⟨core1, hd1, hl1⟩ := srv_recv n2 hin.cs he1 hstep1
  rw [wire_one] at hd1
  -- hop 2: the client takes the stream id and sends buffer length and play
  have hwf2 := createStreamResult_wf (F64.ofU32 c.nextTxn) v.nextStream (F64.ofU32_lt _ htxn) hns
  have hc1txn : mapGet c.nextTxn c1.txns = some (.createStream (.play key)) := by
    rw [hc1]; simp [mapInsert, mapGet]
  have hc1cfg : c1.cfg = c.cfg := by rw [hc1]
  have hpos1 : 1 ≤ c1.ser.maxCs := Safe.emits_cs_pos he1 (linked_pos hin.cs)
  obtain ⟨c2, pa, pb, ba, bb, hhm2, hpa, hpb, he3, hc2⟩ := cli_createStreamResult_play c1 n3
    { ts := epoch n2, typ := 20, msid := 0, data := body2 } c.nextTxn v.nextStream key htxn hns hc1txn hkl hpos1
  rw [hc1cfg] at hpa
  have hsc1 : Linked v.ser c1.des := by rw [hc1]; exact hin.sc
  have hstep2 : CliSteps.steps c1 n3 (msgs [(p2, ({ ts := epoch n2, typ := 20, msid := 0, data := body2 } : Msg))]) = _ :=
    cli_steps_one c1 _ n3 _ _ (by rw [cli_stepMsg_of hwf2 hp2, hhm2])
  obtain ⟨core2, hd2, hl2⟩ := cli_recv n3 hsc1 he2 hstep2
  rw [wire_one] at hd2
  -- hop 3: the server takes both
  have hstep3 := srv_steps_cons
    (srv_step_setBufLen ({ v1' with des := { core := core1, buf := [] } } : Srv.State) n4 v.nextStream
      c.cfg.bufferLengthMs (epoch n3) 0 ba hns hbuf hpa)
    (srv_steps_one _ _ n4 { ts := epoch n3, typ := 20, msid := v.nextStream, data := bb } _ (by
      rw [srv_stepMsg_of (playCmd_wf key hkey) hpb]
      exact srv_play _ n4 _ key appS (by rw [hv1]; exact hvc) (by rw [hv1]; exact hva)))
  obtain ⟨core3, hd3, hl3⟩ := srv_recv n4 (v := { v1' with des := { core := core1, buf := [] } }) hl1 he3 hstep3
  rw [wire_two] at hd3
  have hnr : ({ v1' with des := { core := core1, buf := [] } } : Srv.State).nextReq = v.nextReq := by rw [hv1]
  simp only [List.nil_append] at hd3
  refine ⟨p1, _, p2, _, pa, pb, _, hr1, hd1, hd2, (by rw [← hnr]; exact hd3), ?_⟩
  intro v3 rs3 hacc
  -- hop 4: the acceptance
  rw [← hnr] at hacc
  obtain ⟨q1, q2, q3, q4, q5, b1, b2, b3, b4, b5, hrs3, hq1, hq2, hq3, hq4, hq5, he4, hv3⟩ := acceptPlay_ok
    (key := key) (sid := v.nextStream) (by simp [mapInsert, mapGet]) hns hacc
  -- hop 5: the client takes the five messages
  have hc2st : c2.st = .playRequested := by rw [hc2]
  have hstep5 := cli_steps_cons
    (c := ({ c2 with des := { core := core2, buf := [] } } : Cli.State))
    (m := { ts := epoch n5, typ := 20, msid := v.nextStream, data := b1 })
    (by rw [cli_stepMsg_of playReset_wf hq1, cli_playReset])
    (cli_steps_cons (cli_step_streamBegin _ n6 v.nextStream (epoch n5) v.nextStream 4 b2 hns hq2)
      (cli_steps_cons (m := { ts := epoch n5, typ := 20, msid := v.nextStream, data := b3 })
        (by rw [cli_stepMsg_of (playStart_wf key hkey) hq3, cli_playStart _ n6 _ key (by exact hc2st)])
        (cli_steps_cons (m := { ts := epoch n5, typ := 18, msid := v.nextStream, data := b4 })
          (by rw [cli_stepMsg_of sampleAccess_wf hq4, cli_sampleAccess])
          (cli_steps_one _ _ n6 { ts := epoch n5, typ := 18, msid := v.nextStream, data := b5 } _
            (by rw [cli_stepMsg_of dataStart_wf hq5, cli_dataStart])))))
  obtain ⟨core5, hd5, hl5⟩ := cli_recv n6 (c := { c2 with des := { core := core2, buf := [] } }) hl2 he4 hstep5
  have hb : bytesS rs3 = wire [(q1, ({ ts := epoch n5, typ := 20, msid := v.nextStream, data := b1 } : Msg)),
      (q2, { ts := epoch n5, typ := 4, msid := v.nextStream, data := b2 }),
      (q3, { ts := epoch n5, typ := 20, msid := v.nextStream, data := b3 }),
      (q4, { ts := epoch n5, typ := 18, msid := v.nextStream, data := b4 }),
      (q5, { ts := epoch n5, typ := 18, msid := v.nextStream, data := b5 })] := by
    rw [hrs3]; simp [bytesS, SrvEmit.outs, wire]
  simp only [List.nil_append, List.cons_append, List.append_nil] at hd5
  refine ⟨_, (by rw [hb]; exact hd5), by rw [hrs3]; simp [SrvEmit.outs], ⟨?_, hl5⟩, ?_, ?_, ?_⟩
  · rw [hv3]; exact hl3
  · rw [hc2, hc1]
  · rw [hv3, hv1]
  · rw [hv3]; simp [mapInsert, mapGet]

/-- the state `C02_play_media` starts from -/
structure PlayReady (c : Cli.State) (v : Srv.State) (sid : Nat) (app key : Bytes) : Prop where
  inStep : InStep c v
  cst : c.st = .playing
  cact : c.activeStream = some sid
  sid32 : sid < 4294967296
  vconn : v.connected = true
  vapp : v.app = some app
  vstream : mapGet sid v.streams = some (.playing key)

/-- **C02, play workflow.**  As `publish_workflow`, with `request_playback`: the server is shown exactly
    one connection request and exactly one play request (connected application, requested key, stream
    1, default start/duration/reset), the client exactly "connection accepted", then the reset notice
    and "playback accepted", and the pair ends `PlayReady` on stream 1. -/
theorem play_workflow (ccfg : Cli.Config) (scfg : Srv.Config) (clk : Nat → Nat) (app key : Bytes)
    (hcw : CfgWF ccfg) (hco : CfgOK ccfg) (hbuf : ccfg.bufferLengthMs < 4294967296) (hsw : SCfgWF scfg)
    (happ : Utf8.valid app = true) (hkey : Utf8.valid key = true) (hkl : key.length ≤ 65535)
    {v0 : Srv.State} {rs0 : List Srv.Res} (hnew : Srv.new scfg (clk 0) = .ok (v0, rs0)) :
    ∃ c1 b4, CliPart.drain ({ cfg := ccfg } : Cli.State) (clk 1) (bytesS rs0) = (c1, .ok (bannerEvents scfg (clk 0) b4)) ∧
    ∀ c2 r1, Cli.requestConnection c1 (clk 2) app = (c2, .ok r1) →
    ∃ p1 v1, r1 = .out p1 ∧
      SrvPart.drain v0 (clk 3) p1.bytes = (v1, .ok [.ev (.connectionRequested 0 (trimApp app))]) ∧
    ∀ v2 rs2, Srv.acceptRequest v1 (clk 4) 0 = (v2, .ok rs2) →
    ∃ p2 c3 pa pb v3, rs2 = [.out p2] ∧
      CliPart.drain c2 (clk 5) p2.bytes = (c3, .ok [.out pa, .ev .connectionAccepted, .out pb]) ∧
      SrvPart.drain v2 (clk 6) (pa.bytes ++ pb.bytes) = (v3, .ok []) ∧
    ∀ c4 r3, Cli.requestStream c3 (clk 7) (.play key) = (c4, .ok r3) →
    ∃ p3 v4 p4 c5 p5 p6 v5, r3 = .out p3 ∧
      SrvPart.drain v3 (clk 8) p3.bytes = (v4, .ok [.out p4]) ∧
      CliPart.drain c4 (clk 9) p4.bytes = (c5, .ok [.out p5, .out p6]) ∧
      SrvPart.drain v4 (clk 10) (p5.bytes ++ p6.bytes) =
        (v5, .ok [.ev (.playRequested 1 (trimApp app) key .liveOrRecorded none false 1)]) ∧
    ∀ v6 rs6, Srv.acceptRequest v5 (clk 11) 1 = (v6, .ok rs6) →
    ∃ c6, CliPart.drain c5 (clk 12) (bytesS rs6) =
        (c6, .ok [.ev (.unhandleableOnStatus (str "NetStream.Play.Reset")), .ev .playbackAccepted]) ∧
      PlayReady c6 v6 1 (trimApp app) key := by
  obtain ⟨c1, b4, hd0, hin1, hc1, hv0⟩ := banner_phase ccfg hnew hsw.win hsw.bw
  refine ⟨c1, b4, hd0, ?_⟩
  intro c2 r1 h1
  have hc1cfg : c1.cfg = ccfg := by rw [hc1]
  have hc1txn : c1.nextTxn = 1 := by rw [hc1]
  have hv0fms : v0.fmsVersion = scfg.fmsVersion := by rw [hv0]
  have hv0req : v0.nextReq = 0 := by rw [hv0]
  have hv0ns : v0.nextStream = 1 := by rw [hv0]
  obtain ⟨p1, v1, hr1, hd1, hrest⟩ := connect_phase hin1 (by rw [hc1cfg]; exact hcw) (by rw [hc1cfg]; exact hco) happ
    (by rw [hc1txn]; decide) (by rw [hv0fms]; exact hsw.fms) h1
  rw [hv0req] at hd1 hrest
  refine ⟨p1, v1, hr1, hd1, ?_⟩
  intro v2 rs2 h2
  obtain ⟨p2, c3, pa, pb, v3, hrs2, hd2, hd3, hin3, hc3, hv3⟩ := hrest v2 rs2 h2
  refine ⟨p2, c3, pa, pb, v3, hrs2, hd2, hd3, ?_⟩
  intro c4 r3 h3
  have hc3txn : c3.nextTxn = 2 := by rw [hc3, hc1txn]
  have hc3cfg : c3.cfg = ccfg := by rw [hc3, hc1cfg]
  have hv3ns : v3.nextStream = 1 := by rw [hv3, hv0ns]
  have hv3req : v3.nextReq = 1 := by rw [hv3]
  have hv3c : v3.connected = true := by rw [hv3]
  have hv3a : v3.app = some (trimApp app) := by rw [hv3]
  obtain ⟨p3, v4, p4, c5, p5, p6, v5, hr3, hd4, hd5, hd6, hrest2⟩ := play_phase (appS := trimApp app) hin3
    (by rw [hc3txn]; decide) (by rw [hv3ns]; decide) hkey hkl (by rw [hc3cfg]; exact hbuf) hv3c hv3a h3
  rw [hv3req, hv3ns] at hd6
  rw [hv3req] at hrest2
  refine ⟨p3, v4, p4, c5, p5, p6, v5, hr3, hd4, hd5, hd6, ?_⟩
  intro v6 rs6 h6
  obtain ⟨c6, hd7, _, hin6, hc6, hv6, hstream⟩ := hrest2 v6 rs6 h6
  rw [hv3ns] at hc6 hstream
  refine ⟨c6, hd7, hin6, by rw [hc6], by rw [hc6], by decide, ?_, ?_, hstream⟩
  · rw [hv6]; exact hv3c
  · rw [hv6]; exact hv3a

theorem sendAll_frame (items : List Interop.Item) : ∀ (v v' : Srv.State) (ps : List Ser.Packet) (sid : Nat),
    Interop.sendAll v sid items = some (v', ps) → v' = { v with ser := v'.ser } := by
  induction items with
  | nil =>
    intro v v' ps sid h
    simp only [Interop.sendAll, Option.some.injEq, Prod.mk.injEq] at h
    rw [← h.1]
  | cons it rest ih =>
    intro v v' ps sid h
    simp only [Interop.sendAll] at h
    split at h
    · rename_i v1 p hsm
      split at h
      · rename_i v2 ps2 hrest
        simp only [Option.some.injEq, Prod.mk.injEq] at h
        obtain ⟨h1, _⟩ := h
        subst h1
        have h2 := ih v1 v2 ps2 sid hrest
        have h1 : v1 = { v with ser := v1.ser } := by
          unfold Srv.sendMedia at hsm
          split at hsm
          · simp at hsm
          · rename_i s' p' hsend
            simp only [Prod.mk.injEq, Except.ok.injEq] at hsm
            obtain ⟨e1, _⟩ := hsm
            subst e1
            unfold Srv.send at hsend
            split at hsend
            · simp at hsend
            · simp only [Except.ok.injEq, Prod.mk.injEq] at hsend
              rw [← hsend.1]
        rw [h2, h1]
      · simp at h
    · simp at h

/-- **media on a playing pair** -/
theorem play_items {c : Cli.State} {v v' : Srv.State} {sid : Nat} {app key : Bytes}
    (hr : PlayReady c v sid app key) (items : List Interop.Item) (ps : List Ser.Packet) (now : Nat) (mask : List Bool)
    (hts : ∀ it ∈ items, it.ts < 4294967296) (hsend : Interop.sendAll v sid items = some (v', ps)) :
    let kept := keepSel mask (ps.zip (items.map (Interop.Item.msg sid)))
    ∃ c', CliPart.drain c now (wire kept) = (c', .ok ((msgs kept).flatMap Interop.evOfC)) ∧
      PlayReady c' v' sid app key := by
  intro kept
  obtain ⟨core', hd, hl⟩ := Interop.play_media v v' c items ps sid now mask (Or.inl hr.cst) hr.cact hr.sid32 hts
    hr.inStep.sc hsend
  have hf := sendAll_frame items v v' ps sid hsend
  refine ⟨_, hd, ⟨?_, hl⟩, hr.cst, hr.cact, hr.sid32, ?_, ?_, ?_⟩
  · rw [hf]; exact hr.inStep.cs
  · rw [hf]; exact hr.vconn
  · rw [hf]; exact hr.vapp
  · rw [hf]; exact hr.vstream

/-- **stop on a playing pair**: the server raises exactly "play finished" and forgets the stream -/
theorem stop_playback {c c1 : Cli.State} {v : Srv.State} {sid : Nat} {app key : Bytes} {n1 n2 : Nat} {rs : List Cli.Res}
    (hr : PlayReady c v sid app key) (h : Cli.stop c n1 true = (c1, .ok rs)) :
    ∃ p v1, rs = [.out p] ∧ SrvPart.drain v n2 p.bytes = (v1, .ok [.ev (.playFinished app key)]) ∧
      InStep c1 v1 ∧ c1.st = .connected ∧ c1.activeStream = none ∧ mapGet sid v1.streams = none := by
  obtain ⟨p, body, hrs, hp, he, hc1⟩ := stop_ok (play := true) (by simp [hr.cst]) hr.cact hr.sid32 h
  have hstep : SrvSteps.steps v n2 (msgs [(p, ({ ts := epoch n1, typ := 20, msid := sid, data := body } : Msg))]) = _ :=
    srv_steps_one v _ n2 _ _ (by
      rw [srv_stepMsg_of (deleteStreamCmd_wf sid hr.sid32) hp]
      exact srv_deleteStream v n2 _ sid app _ hr.sid32 hr.vconn hr.vapp hr.vstream)
  obtain ⟨core1, hd, hl⟩ := srv_recv n2 hr.inStep.cs he hstep
  rw [wire_one] at hd
  refine ⟨p, _, hrs, hd, ⟨hl, ?_⟩, by rw [hc1], by rw [hc1], ?_⟩
  · rw [hc1]; exact hr.inStep.sc
  · exact mapGet_mapRemove_self sid v.streams

end Rml.Workflow
