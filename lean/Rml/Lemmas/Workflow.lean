/-
The connect → createStream → publish workflow run between the two session models, hop by hop:
each hop is one API call or one delivery of everything the peer just emitted (Exchange.lean), each
delivery is the message-level fold (SrvSteps / CliSteps), each message is the one the peer built
(WfSteps / WfPublish, by the payload round trip C13 and the AMF0 round trip C04 behind it).
-/
import Rml.Lemmas.WfPublish
namespace Rml.Workflow
open Rml Rml.Bytes Rml.Chunk Rml.Amf0 Rml.Msgs Rml.Sess Rml.SerHist Rml.Emit Rml.Link Rml.Exchange Rml.WfSteps

/-- the two sessions are in step in both directions: each has consumed everything the other sent -/
structure InStep (c : Cli.State) (v : Srv.State) : Prop where
  cs : Linked c.ser v.des
  sc : Linked v.ser c.des

theorem wire_one (p : Ser.Packet) (m : Msg) : wire [(p, m)] = p.bytes := by simp [wire]
theorem wire_two (p1 p2 : Ser.Packet) (m1 m2 : Msg) : wire [(p1, m1), (p2, m2)] = p1.bytes ++ p2.bytes := by simp [wire]

/-- **connect phase.**  In step, client disconnected.  `request_connection` returns a packet; delivered
    to the server it raises exactly one connection request, for the application name minus one trailing
    '/'; when the application accepts it, the response delivered to the client raises exactly
    "connection accepted" and makes the client announce its window and chunk size; delivered to the
    server those raise nothing; and the two are in step again, both connected. -/
theorem connect_phase {c c1 : Cli.State} {v : Srv.State} {now : Nat} {app : Bytes} {r1 : Cli.Res}
    (hin : InStep c v) (hw : CfgWF c.cfg) (hok : CfgOK c.cfg) (happ : Utf8.valid app = true)
    (htxn : c.nextTxn < 4294967296) (hfms : Utf8.valid v.fmsVersion = true)
    (h1 : Cli.requestConnection c now app = (c1, .ok r1)) :
    ∃ p1 v1, r1 = .out p1 ∧
      SrvPart.drain v now p1.bytes = (v1, .ok [.ev (.connectionRequested v.nextReq (trimApp app))]) ∧
      ∀ v2 rs2, Srv.acceptRequest v1 now v.nextReq = (v2, .ok rs2) →
        ∃ p2 c2 pa pb v3, rs2 = [.out p2] ∧
          CliPart.drain c1 now p2.bytes = (c2, .ok [.out pa, .ev .connectionAccepted, .out pb]) ∧
          SrvPart.drain v2 now (pa.bytes ++ pb.bytes) = (v3, .ok []) ∧
          InStep c2 v3 ∧
          c2 = { c with nextTxn := c.nextTxn + 1, txns := c2.txns, st := .connected, app := some app,
                        ser := c2.ser, des := c2.des } ∧
          v3 = { v with objectEncoding := 0, nextReq := v.nextReq + 1, reqs := v3.reqs, app := some (trimApp app),
                        connected := true, window := some c.cfg.windowAckSize, ser := v3.ser, des := v3.des } := by
  -- hop 1: the request
  obtain ⟨p1, body1, hr1, hst, hp1, he1, hc1⟩ := requestConnection_ok h1
  have hwf1 := connectCmd_wf c app hw happ htxn
  have hstep1 : SrvSteps.steps v now (msgs [(p1, ({ ts := epoch now, typ := 20, msid := 0, data := body1 } : Msg))]) = _ :=
    srv_steps_one v _ now _ _ (by rw [srv_stepMsg_of hwf1 hp1]; exact srv_connect v now _ c app)
  obtain ⟨core1, hd1, hl1⟩ := srv_recv now hin.cs he1 hstep1
  rw [wire_one] at hd1
  refine ⟨p1, _, hr1, hd1, ?_⟩
  intro v2 rs2 hacc
  -- hop 2: the acceptance
  have hreq : mapGet v.nextReq
      ({ v with objectEncoding := 0, nextReq := v.nextReq + 1,
                reqs := mapInsert v.nextReq (.connection (trimApp app) (F64.ofU32 c.nextTxn)) v.reqs,
                des := { core := core1, buf := [] } } : Srv.State).reqs =
      some (.connection (trimApp app) (F64.ofU32 c.nextTxn)) := by
    simp [mapInsert, mapGet]
  obtain ⟨p2, body2, hrs2, hp2, he2, hv2⟩ := acceptConnection_ok hreq hacc
  have hwf2 := connectResult_wf
    ({ v with objectEncoding := 0, nextReq := v.nextReq + 1,
              reqs := mapInsert v.nextReq (.connection (trimApp app) (F64.ofU32 c.nextTxn)) v.reqs,
              des := { core := core1, buf := [] } } : Srv.State) (trimApp app) (F64.ofU32 c.nextTxn)
    hfms (trimApp_valid happ) (F64.ofU32_lt _ htxn) (by show (0 : Nat) < _; decide)
  -- hop 3: the client takes the response
  have hc1txn : mapGet c.nextTxn c1.txns = some (.connection app) := by
    rw [hc1]; simp [mapInsert, mapGet]
  have hc1cfg : c1.cfg = c.cfg := by rw [hc1]
  have hpos1 : 1 ≤ c1.ser.maxCs := Safe.emits_cs_pos he1 (linked_pos hin.cs)
  obtain ⟨c2, pa, pb, hhm, hemc, hc2⟩ := cli_connectResult c1 now
    { ts := epoch now, typ := 20, msid := 0, data := body2 } _ app (trimApp app) c.nextTxn htxn hc1txn
    (by rw [hc1cfg]; exact hok) hpos1
  have hsc1 : Linked v.ser c1.des := by rw [hc1]; exact hin.sc
  have hstep3 : CliSteps.steps c1 now (msgs [(p2, ({ ts := epoch now, typ := 20, msid := 0, data := body2 } : Msg))]) = _ :=
    cli_steps_one c1 _ now _ _ (by rw [cli_stepMsg_of hwf2 hp2, hhm])
  obtain ⟨core3, hd3, hl3⟩ := cli_recv now hsc1 he2 hstep3
  rw [wire_one] at hd3
  -- hop 4: the server takes the announcements
  have hlcs : Linked c1.ser v2.des := by rw [hv2]; exact hl1
  obtain ⟨d4, hstep4⟩ := srv_steps_announce v2 now c.cfg.windowAckSize c.cfg.chunkSize (epoch now) 0
    (by have := hok.win; exact this) hok.cs
  rw [hc1cfg] at hemc
  obtain ⟨core4, hd4, hl4⟩ := srv_recv now hlcs hemc hstep4
  rw [wire_two] at hd4
  refine ⟨p2, _, pa, pb, _, hrs2, hd3, hd4, ⟨hl4, ?_⟩, ?_, ?_⟩
  · exact hl3
  · rw [hc2, hc1]
  · rw [hv2]

/-- **publish phase.**  In step, both connected.  `request_publishing` returns a createStream packet;
    the server answers it inside `handle_input`; the client, on the answer, sends `publish` on the new
    stream; the server raises exactly one publish request, for the connected application and the
    requested key and mode; when the application accepts it, the status delivered to the client raises
    exactly "publish accepted".  Afterwards the client is publishing on the stream id the server holds as
    publishing under that key, and the two are in step — the state `C02_publish_media` starts from. -/
theorem publish_phase {c c1 : Cli.State} {v : Srv.State} {now : Nat} {key appS : Bytes} {t : Cli.PublishType} {r1 : Cli.Res}
    (hin : InStep c v) (htxn : c.nextTxn < 4294967296) (hns : v.nextStream < 4294967296)
    (hkey : Utf8.valid key = true) (hkl : key.length ≤ 65535)
    (hvc : v.connected = true) (hva : v.app = some appS)
    (h1 : Cli.requestStream c now (.publish key t) = (c1, .ok r1)) :
    ∃ p1 v1 p2 c2 p3 v2, r1 = .out p1 ∧
      SrvPart.drain v now p1.bytes = (v1, .ok [.out p2]) ∧
      CliPart.drain c1 now p2.bytes = (c2, .ok [.out p3]) ∧
      SrvPart.drain v1 now p3.bytes = (v2, .ok [.ev (.publishRequested v.nextReq appS key (modeOf t))]) ∧
      ∀ v3 rs3, Srv.acceptRequest v2 now v.nextReq = (v3, .ok rs3) →
        ∃ p4 p5 c3, rs3 = [.out p4, .out p5] ∧
          CliPart.drain c2 now (p4.bytes ++ p5.bytes) = (c3, .ok [.ev .publishAccepted]) ∧
          InStep c3 v3 ∧
          c3 = { c with nextTxn := c.nextTxn + 1, txns := c3.txns, st := .publishing, activeStream := some v.nextStream,
                        ser := c3.ser, des := c3.des } ∧
          v3 = { v with nextStream := v.nextStream + 1, streams := v3.streams, nextReq := v.nextReq + 1, reqs := v3.reqs,
                        ser := v3.ser, des := v3.des } ∧
          mapGet v.nextStream v3.streams = some (.publishing key (modeOf t)) := by
  -- hop 1: createStream request
  obtain ⟨p1, body1, hr1, hst, hp1, he1, hc1⟩ := requestStream_ok h1
  have hwf1 := createStreamCmd_wf c htxn
  obtain ⟨v1', p2, body2, hhm1, hp2, he2, hv1⟩ := srv_createStream v now
    { ts := epoch now, typ := 20, msid := 0, data := body1 } c (linked_pos hin.sc)
  have hstep1 : SrvSteps.steps v now (msgs [(p1, ({ ts := epoch now, typ := 20, msid := 0, data := body1 } : Msg))]) = _ :=
    srv_steps_one v _ now _ _ (by rw [srv_stepMsg_of hwf1 hp1]; exact hhm1)
  obtain ⟨core1, hd1, hl1⟩ := srv_recv now hin.cs he1 hstep1
  rw [wire_one] at hd1
  -- hop 2: the client takes the stream id and sends publish
  have hwf2 := createStreamResult_wf (F64.ofU32 c.nextTxn) v.nextStream (F64.ofU32_lt _ htxn) hns
  have hc1txn : mapGet c.nextTxn c1.txns = some (.createStream (.publish key t)) := by
    rw [hc1]; simp [mapInsert, mapGet]
  have hpos1 : 1 ≤ c1.ser.maxCs := Safe.emits_cs_pos he1 (linked_pos hin.cs)
  obtain ⟨c2, p3, body3, hhm2, hp3, he3, hc2⟩ := cli_createStreamResult_publish c1 now
    { ts := epoch now, typ := 20, msid := 0, data := body2 } c.nextTxn v.nextStream key t htxn hns hc1txn hkl hpos1
  have hsc1 : Linked v.ser c1.des := by rw [hc1]; exact hin.sc
  have hstep2 : CliSteps.steps c1 now (msgs [(p2, ({ ts := epoch now, typ := 20, msid := 0, data := body2 } : Msg))]) = _ :=
    cli_steps_one c1 _ now _ _ (by rw [cli_stepMsg_of hwf2 hp2, hhm2])
  obtain ⟨core2, hd2, hl2⟩ := cli_recv now hsc1 he2 hstep2
  rw [wire_one] at hd2
  -- hop 3: the server takes the publish command
  have hwf3 := publishCmd_wf key t hkey
  have hstep3 : SrvSteps.steps ({ v1' with des := { core := core1, buf := [] } } : Srv.State) now
      (msgs [(p3, ({ ts := epoch now, typ := 20, msid := v.nextStream, data := body3 } : Msg))]) = _ :=
    srv_steps_one _ _ now _ _ (by
      rw [srv_stepMsg_of hwf3 hp3]
      exact srv_publish _ now _ key t appS (by rw [hv1]; exact hvc) (by rw [hv1]; exact hva))
  obtain ⟨core3, hd3, hl3⟩ := srv_recv now (v := { v1' with des := { core := core1, buf := [] } }) hl1 he3 hstep3
  rw [wire_one] at hd3
  have hnr : ({ v1' with des := { core := core1, buf := [] } } : Srv.State).nextReq = v.nextReq := by rw [hv1]
  refine ⟨p1, _, p2, _, p3, _, hr1, hd1, hd2, (by rw [← hnr]; exact hd3), ?_⟩
  intro v3 rs3 hacc
  -- hop 4: the acceptance
  rw [← hnr] at hacc
  obtain ⟨p4, p5, b4, b5, hrs3, hp4, hp5, he4, _, hv3⟩ := acceptPublish_ok
    (key := key) (mode := modeOf t) (sid := v.nextStream) (by simp [mapInsert, mapGet]) hns hacc
  -- hop 5: the client takes the status
  have hstepA : CliSteps.stepMsg ({ c2 with des := { core := core2, buf := [] } } : Cli.State) now
      { ts := epoch now, typ := 4, msid := v.nextStream, data := b4 } =
        .ok (({ c2 with des := { core := core2, buf := [] } } : Cli.State), []) :=
    cli_step_streamBegin _ now v.nextStream _ _ 4 b4 hns hp4
  have hstepB : CliSteps.stepMsg ({ c2 with des := { core := core2, buf := [] } } : Cli.State) now
      { ts := epoch now, typ := 20, msid := v.nextStream, data := b5 } =
        .ok (({ c2 with des := { core := core2, buf := [] }, st := .publishing } : Cli.State), [.ev .publishAccepted]) := by
    rw [cli_stepMsg_of (publishStatus_wf key hkey) hp5, cli_publishStatus _ now _ key (by rw [hc2])]
  have hstep5 := cli_steps_two _ _ _ now _ _ _ _ hstepA hstepB
  obtain ⟨core5, hd5, hl5⟩ := cli_recv now (c := { c2 with des := { core := core2, buf := [] } }) hl2 he4 hstep5
  rw [wire_two] at hd5
  refine ⟨p4, p5, _, hrs3, hd5, ⟨?_, hl5⟩, ?_, ?_, ?_⟩
  · rw [hv3]; exact hl3
  · rw [hc2, hc1]
  · rw [hv3, hv1]
  · rw [hv3]; simp [mapInsert, mapGet]

end Rml.Workflow
