/-
Handling a message other than SetChunkSize leaves the deserializer exactly as it was.
-/
import Rml.Lemmas.SessSafe
namespace Rml.CoreS
open Rml Rml.Bytes Rml.Chunk Rml.Amf0 Rml.Msgs Rml.Sess

theorem send_desE {s s' : Srv.State} {m : RtmpMsg} {ts msid : Nat} {f d : Bool} {p : Ser.Packet}
    (h : Srv.send s m ts msid f d = .ok (s', p)) : s'.des = s.des := by
  unfold Srv.send at h
  split at h
  · simp at h
  · simp only [Except.ok.injEq, Prod.mk.injEq] at h; rw [← h.1]

theorem errorOut_desE {s s' : Srv.State} {now : Nat} {code desc : Bytes} {tid sid : Nat} {rs : List Srv.Res}
    (h : Srv.errorOut s now code desc tid sid = .ok (s', rs)) : s'.des = s.des := by
  unfold Srv.errorOut Srv.errorPacket at h
  split at h
  · simp at h
  · rename_i s2 p hs
    simp only [Except.ok.injEq, Prod.mk.injEq] at h; rw [← h.1]; (have hd := send_desE hs; exact hd)

theorem closeOrDelete_desE (s : Srv.State) (args : List Val) (delete : Bool) :
    (Srv.cmdCloseOrDelete s args delete).1.des = s.des := by
  have triv : s.des = s.des := rfl
  unfold Srv.cmdCloseOrDelete
  cases hconn : s.connected
  · exact triv
  · simp only [Bool.not_eq_true, Bool.true_eq_false, if_false, not_true_eq_false]
    cases happ : s.app with
    | none => exact triv
    | some app =>
      simp only
      match args with
      | [] => exact triv
      | .number x :: rest =>
        simp only
        cases hg : mapGet (F64.toU32 x) s.streams with
        | none => exact triv
        | some st => rfl
      | .boolean _ :: _ => exact triv
      | .str _ :: _ => exact triv
      | .object _ :: _ => exact triv
      | .array _ :: _ => exact triv
      | .null :: _ => exact triv
      | .undefined :: _ => exact triv

theorem handleCommand_desE {s s' : Srv.State} {now sid : Nat} {name : Bytes} {tid : Nat} {obj : Val} {args : List Val}
    {rs : List Srv.Res} (h : Srv.handleCommand s now sid name tid obj args = .ok (s', rs)) : s'.des = s.des := by
  unfold Srv.handleCommand at h
  split at h
  · unfold Srv.cmdConnect at h
    (repeat' split at h)
    all_goals first
      | (simp at h; done)
      | (simp only [Except.ok.injEq, Prod.mk.injEq] at h; rw [← h.1]; done)
  · split at h
    · simp only [Except.ok.injEq] at h
      have := closeOrDelete_desE s args false
      rw [h] at this; exact this
    · split at h
      · unfold Srv.cmdCreateStream at h
        simp only at h
        split at h
        · simp at h
        · rename_i s2 p hs
          simp only [Except.ok.injEq, Prod.mk.injEq] at h; rw [← h.1]
          (have hd := send_desE hs; exact hd)
      · split at h
        · simp only [Except.ok.injEq] at h
          have := closeOrDelete_desE s args true
          rw [h] at this; exact this
        · split at h
          · unfold Srv.cmdPlay at h
            match args, h with
            | [], h => exact errorOut_desE h
            | a0 :: rest, h =>
              simp only at h
              (repeat' split at h)
              all_goals first
                | exact errorOut_desE h
                | (simp only [Except.ok.injEq, Prod.mk.injEq] at h; rw [← h.1]; done)
          · split at h
            · unfold Srv.cmdPublish at h
              match args, h with
              | [], h => exact errorOut_desE h
              | [_], h => exact errorOut_desE h
              | a0 :: a1 :: _, h =>
                simp only at h
                (repeat' split at h)
                all_goals first
                  | exact errorOut_desE h
                  | (simp at h; done)
                  | (simp only [Except.ok.injEq, Prod.mk.injEq] at h; rw [← h.1]; done)
                  | (rename_i s2 p hs
                     simp only [Except.ok.injEq, Prod.mk.injEq] at h; rw [← h.1]
                     (have hd := send_desE hs; exact hd))
            · simp only [Except.ok.injEq, Prod.mk.injEq] at h; rw [← h.1]


theorem handleMessage_desE {s s' : Srv.State} {now : Nat} {p : Msg} {m : RtmpMsg} {rs : List Srv.Res}
    (hm : ∀ n, m ≠ .setChunkSize n) (h : Srv.handleMessage s now p m = .ok (s', rs)) : s'.des = s.des := by
  unfold Srv.handleMessage at h
  cases m with
  | amf0Command name tid obj args => exact handleCommand_desE h
  | setChunkSize n => exact absurd rfl (hm n)
  | userControl ev a b ts =>
    simp only at h
    cases ev <;> simp only at h
    all_goals first
      | (simp only [Except.ok.injEq, Prod.mk.injEq] at h; rw [← h.1]; done)
      | (split at h
         · simp at h
         · rename_i s2 pk hs
           simp only [Except.ok.injEq, Prod.mk.injEq] at h; rw [← h.1]
           (have hd := send_desE hs; exact hd))
  | amf0Data vals => simp only [Except.ok.injEq, Prod.mk.injEq] at h; rw [← h.1]
  | audio d => simp only [Except.ok.injEq, Prod.mk.injEq] at h; rw [← h.1]
  | video d => simp only [Except.ok.injEq, Prod.mk.injEq] at h; rw [← h.1]
  | abort _ => simp only [Except.ok.injEq, Prod.mk.injEq] at h; rw [← h.1]
  | ack n => simp only [Except.ok.injEq, Prod.mk.injEq] at h; rw [← h.1]
  | setPeerBandwidth _ _ => simp only [Except.ok.injEq, Prod.mk.injEq] at h; rw [← h.1]
  | windowAck n => simp only [Except.ok.injEq, Prod.mk.injEq] at h; rw [← h.1]
  | unknown _ _ => simp only [Except.ok.injEq, Prod.mk.injEq] at h; rw [← h.1]

end Rml.CoreS
