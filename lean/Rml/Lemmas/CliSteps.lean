/-
The client's message loop is the message-level fold (see SrvSteps.lean for the server).
-/
import Rml.Lemmas.SessDesP
import Rml.Lemmas.CliFold
import Rml.Lemmas.SrvSteps
namespace Rml.CliSteps
open Rml Rml.Bytes Rml.Chunk Rml.Des Rml.Msgs Rml.Sess
open Rml.Safe.C (FuelOK)
open Rml.SrvSteps (parse_of_typ1 not_setcs_of_typ setcs_core)

/-- one message at message level -/
def stepMsg (s : Cli.State) (now : Nat) (m : Msg) : Except Sess.Err (Cli.State × List Cli.Res) :=
  match fromPayload m.typ m.data with
  | .error e => .error (.msgDes e)
  | .ok rm =>
    match Cli.handleMessage s now m rm with
    | (_, .error e) => .error e
    | (s2, .ok rs) => .ok (s2, rs)

/-- a list of messages at message level -/
def steps (s : Cli.State) (now : Nat) : List Msg → Except Sess.Err (Cli.State × List Cli.Res)
  | [] => .ok (s, [])
  | m :: ms =>
    match stepMsg s now m with
    | .error e => .error e
    | .ok (s2, rs) =>
      match steps s2 now ms with
      | .error e => .error e
      | .ok (s3, rs') => .ok (s3, rs ++ rs')

/-- **the loop is the fold.** -/
theorem msgLoop_steps (now : Nat) :
    ∀ (ms : List Msg) (f : Nat) (s sF : Cli.State) (c : Core) (b : Bytes) (c' : Core) (acc rs : List Cli.Res),
      run c b [] = { core := c', buf := [], msgs := ms, err := none } →
      FuelOK f { s with des := { core := c, buf := b } } →
      steps s now ms = .ok (sF, rs) →
      Cli.msgLoop f { s with des := { core := c, buf := b } } now acc =
        ({ sF with des := { core := c', buf := [] } }, .ok (acc ++ rs)) := by
  intro ms
  induction ms with
  | nil =>
    intro f s sF c b c' acc rs hrun hf hst
    simp only [steps, Except.ok.injEq, Prod.mk.injEq] at hst
    obtain ⟨h1, h2⟩ := hst
    subst h1; subst h2
    have := CliFold.msgLoop_plain s now (fun _ => []) [] f c b c' acc hrun (fun _ h => by cases h) (fun _ h => by cases h) hf
    simpa using this
  | cons m ms ih =>
    intro f s sF c b c' acc rs hrun hf hst
    cases f with
    | zero => unfold FuelOK at hf; split at hf <;> omega
    | succ f =>
      rw [Link.run_nx _ c b [] (Nat.lt_succ_self _)] at hrun
      simp only [Cli.msgLoop, next_eq_nx]
      cases herr : (nx c b).err with
      | some e => simp [herr] at hrun
      | none =>
        simp only [herr] at hrun ⊢
        cases hmsg : (nx c b).msg with
        | none => simp [hmsg] at hrun
        | some m' =>
          simp only [hmsg] at hrun ⊢
          cases hh : honour (nx c b).core m' with
          | error e => simp [hh] at hrun
          | ok c2 =>
            simp only [hh] at hrun
            have hacc := run_acc _ c2 (nx c b).buf ([] ++ [m']) (Nat.lt_succ_self _)
            rw [hacc] at hrun
            simp only [List.nil_append, Run.mk.injEq, List.cons_append, List.cons.injEq] at hrun
            obtain ⟨h1, h2, ⟨hm, hms⟩, h4⟩ := hrun
            subst hm
            have hrun' : run c2 (nx c b).buf [] = { core := c', buf := [], msgs := ms, err := none } := by
              cases hr : run c2 (nx c b).buf [] with
              | mk rc rb rm' re =>
                rw [hr] at h1 h2 hms h4
                simp only at h1 h2 hms h4
                rw [h1, h2, hms, h4]
            simp only [steps] at hst
            cases hsm : stepMsg s now m' with
            | error e => simp [hsm] at hst
            | ok q =>
              obtain ⟨s2, rs1⟩ := q
              simp only [hsm] at hst
              cases hrest : steps s2 now ms with
              | error e => simp [hrest] at hst
              | ok q2 =>
                obtain ⟨s3, rs2⟩ := q2
                simp only [hrest, Except.ok.injEq, Prod.mk.injEq] at hst
                obtain ⟨e1, e2⟩ := hst
                subst e1; subst e2
                unfold stepMsg at hsm
                cases hfp : fromPayload m'.typ m'.data with
                | error e => simp [hfp] at hsm
                | ok rm =>
                  simp only [hfp] at hsm ⊢
                  have hfuel : ∀ t : Cli.State, t.des.buf = (nx c b).buf → t.des.core.stage = (nx c b).core.stage →
                      FuelOK f t := by
                    intro t hb hs
                    exact CliPart.fuelOK_step hf (p := m') (show (next { core := c, buf := b }).msg = some m' from hmsg)
                      ⟨hb, hs⟩
                  by_cases ht : m'.typ = 1
                  · rw [ht] at hfp
                    obtain ⟨k, hk, hparse⟩ := parse_of_typ1 hfp
                    subst hk
                    have hhon : honour (nx c b).core m' = Des.setMaxChunkSize (nx c b).core k := by
                      unfold honour; simp [ht, hparse]
                    rw [hhon] at hh
                    have hc2 := setcs_core hh
                    simp only [Cli.handleMessage] at hsm ⊢
                    cases hs0 : Des.setMaxChunkSize s.des.core k with
                    | error e => simp [hs0] at hsm
                    | ok c0 =>
                      simp only [hs0, Except.ok.injEq, Prod.mk.injEq] at hsm
                      obtain ⟨hs2, hrs1⟩ := hsm
                      subst hs2; subst hrs1
                      simp only [hh]
                      have := ih f { s with des := { s.des with core := c0 } } s3 c2 (nx c b).buf c' (acc ++ []) rs2 hrun'
                        (hfuel _ rfl (by show c2.stage = _; rw [hc2]))
                        hrest
                      simpa using this
                  · have hns := not_setcs_of_typ ht hfp
                    have hpl := SrvFold.honour_plain (nx c b).core m' ht
                    rw [hpl] at hh
                    simp only [Except.ok.injEq] at hh
                    subst hh
                    have hpar := DesPC.handleMessage_buf s { core := (nx c b).core, buf := (nx c b).buf } now m' rm hns
                    unfold DesPC.withDes at hpar
                    rw [hpar]
                    cases hhm : Cli.handleMessage s now m' rm with
                    | mk sx rx =>
                      rw [hhm] at hsm
                      cases rx with
                      | error e => simp at hsm
                      | ok rr =>
                        simp only [Except.ok.injEq, Prod.mk.injEq] at hsm
                        obtain ⟨hs2, hrs1⟩ := hsm
                        subst hs2; subst hrs1
                        have := ih f sx s3 (nx c b).core (nx c b).buf c' (acc ++ rr) rs2 hrun'
                          (hfuel _ rfl rfl) hrest
                        simpa [List.append_assoc] using this

end Rml.CliSteps
