/-
`get_next_message` and more input: what one call returns on a buffer it returns on every extension of
that buffer (message, error), and where it stopped for lack of input it resumes.  (Thm P at the level
the sessions use the deserializer.)
-/
import Rml.Lemmas.DesNext
namespace Rml.Des
open Rml Rml.Bytes Rml.Chunk

theorem nextFuel_fuel_irrel (f1 : Nat) : ∀ (f2 : Nat) (c : Core) (b : Bytes),
    mu c b < f1 → mu c b < f2 → nextFuel f1 c b = nextFuel f2 c b := by
  induction f1 with
  | zero => intro f2 c b h1; omega
  | succ f1 ih =>
    intro f2 c b h1 h2
    cases f2 with
    | zero => omega
    | succ f2 =>
      simp only [nextFuel]
      cases hs : stageStep c b with
      | needMore => rfl
      | err e => rfl
      | ok c' rest m =>
        have hd := stageStep_decreases c c' b rest m hs
        cases m with
        | none => exact ih f2 c' rest (by omega) (by omega)
        | some m => rfl

/-- fuel-free form of one `get_next_message` call -/
def nx (c : Core) (b : Bytes) : Next := nextFuel (fuelFor b) c b

theorem next_eq_nx (s : State) : next s = nx s.core s.buf := rfl

theorem nx_eq (c : Core) (b : Bytes) :
    nx c b =
      match stageStep c b with
      | .needMore => { core := c, buf := b, msg := none, err := none }
      | .err e => { core := c, buf := b, msg := none, err := some e }
      | .ok c' rest none => nx c' rest
      | .ok c' rest (some m) => { core := c', buf := rest, msg := some m, err := none } := by
  unfold nx
  have hf : fuelFor b = (fuelFor b - 1) + 1 := by unfold fuelFor; omega
  rw [hf]
  simp only [nextFuel]
  cases hs : stageStep c b with
  | needMore => rfl
  | err e => rfl
  | ok c' rest m =>
    have hd := stageStep_decreases c c' b rest m hs
    have hm := mu_lt_fuelFor c b
    cases m with
    | none =>
      simp only
      exact nextFuel_fuel_irrel _ _ c' rest (by omega) (mu_lt_fuelFor c' rest)
    | some m => rfl

/-- one call on `b ++ ys`, in terms of the call on `b` -/
theorem nx_append (n : Nat) : ∀ (c : Core) (b ys : Bytes), mu c b < n →
    nx c (b ++ ys) =
      match (nx c b).err, (nx c b).msg with
      | some e, _ => { nx c b with buf := (nx c b).buf ++ ys }
      | none, some _ => { nx c b with buf := (nx c b).buf ++ ys }
      | none, none => nx (nx c b).core ((nx c b).buf ++ ys) := by
  induction n with
  | zero => intro c b ys h; omega
  | succ n ih =>
    intro c b ys hmu
    rw [nx_eq c b]
    cases hs : stageStep c b with
    | needMore => simp only
    | err e =>
      simp only
      rw [nx_eq c (b ++ ys), stageStep_mono_err c b ys e hs]
    | ok c' rest m =>
      have hd := stageStep_decreases c c' b rest m hs
      rw [nx_eq c (b ++ ys), stageStep_mono_ok c c' b ys rest m hs]
      cases m with
      | none => simp only; exact ih c' rest ys (by omega)
      | some m => simp only

theorem next_append (s : State) (ys : Bytes) :
    next { s with buf := s.buf ++ ys } =
      match (next s).err, (next s).msg with
      | some e, _ => { next s with buf := (next s).buf ++ ys }
      | none, some _ => { next s with buf := (next s).buf ++ ys }
      | none, none => next { core := (next s).core, buf := (next s).buf ++ ys } :=
  nx_append _ s.core s.buf ys (Nat.lt_succ_self _)

end Rml.Des
