/-
The session's clock on everything it sends by itself (server): the walk of Lemmas/SrvEmit.lean repeated with
"every emitted message carries a timestamp satisfying `K`", for a predicate `K` that holds of the clock reading
`epoch now` of the call — instantiated in Props/C18 with "is exactly `epoch now`".
-/
import Rml.Lemmas.SrvEmit
import Rml.Lemmas.SrvMsid
namespace Rml.SrvTs
open Rml Rml.Bytes Rml.Chunk Rml.Amf0 Rml.Msgs Rml.Sess Rml.Emit Rml.SrvEmit
open Rml.SrvMsid (Good)

/-- the call's clock reading is allowed -/
class HasNow (K : Nat → Prop) (now : Nat) : Prop where
  out : Good K (epoch now)

variable {K : Nat → Prop} {now : Nat} [HasNow K now]

open Rml Rml.Bytes Rml.Chunk Rml.Amf0 Rml.Msgs Rml.Sess Rml.Emit

/-- the results `rs` of a step from `s` to `s'` contain exactly the packets of a well-formed serializer
    history from `s.ser` to `s'.ser`, in order, each carrying a sendable RTMP message -/
def Em (K : Nat → Prop) (s s' : Srv.State) (rs : List Srv.Res) : Prop :=
  ∃ xs, Emits s.ser s'.ser xs ∧ xs.map (·.1) = outs rs ∧ ∀ x ∈ xs, K x.2.ts

theorem em_same {s s' : Srv.State} {rs : List Srv.Res} (h1 : s'.ser = s.ser) (h2 : outs rs = []) : Em K s s' rs :=
  ⟨[], by rw [h1]; exact Emits.nil _, by rw [h2]; rfl, fun _ h => by cases h⟩

theorem em_trans {a b c : Srv.State} {r1 r2 : List Srv.Res} (h1 : Em K a b r1) (h2 : Em K b c r2) : Em K a c (r1 ++ r2) := by
  obtain ⟨x1, e1, m1, g1⟩ := h1
  obtain ⟨x2, e2, m2, g2⟩ := h2
  refine ⟨x1 ++ x2, e1.trans e2, ?_, ?_⟩
  · simp only [List.map_append, m1, m2, outs, List.filterMap_append]
  · intro x hx; rcases List.mem_append.mp hx with h | h
    · exact g1 x h
    · exact g2 x h

theorem em_send {s s' : Srv.State} {m : RtmpMsg} {ts msid : Nat} {f d : Bool} {p : Ser.Packet}
    (h : Srv.send s m ts msid f d = .ok (s', p)) (hs : Sendable m) (hts : Good K ts)
    (hmsid : msid < 4294967296) :
    Em K s s' [.out p] ∧ s' = { s with ser := s'.ser } := by
  unfold Srv.send at h
  cases hm : sendMsg s.ser m ts msid f d with
  | error e => simp [hm] at h
  | ok r =>
    obtain ⟨ser', p'⟩ := r
    simp only [hm, Except.ok.injEq, Prod.mk.injEq] at h
    obtain ⟨h1, h2⟩ := h
    subst h1; subst h2
    obtain ⟨x, he, _, hx, _⟩ := sendMsg_emits hm hs hts.1 hmsid
    exact ⟨⟨[(p', x)], he, rfl, fun y hy => by simp at hy; rw [hy]; show K x.ts; rw [hx]; exact hts.2⟩, rfl⟩

/-- one step: what it emits, and that it keeps the invariant -/
def Step (K : Nat → Prop) (s s' : Srv.State) (rs : List Srv.Res) : Prop := Em K s s' rs ∧ (Inv s → Inv s')

theorem step_send {s s' : Srv.State} {m : RtmpMsg} {ts msid : Nat} {f d : Bool} {p : Ser.Packet}
    (h : Srv.send s m ts msid f d = .ok (s', p)) (hs : Sendable m) (hts : Good K ts)
    (hmsid : msid < 4294967296) : Step K s s' [.out p] := by
  obtain ⟨he, hf⟩ := em_send h hs hts hmsid
  exact ⟨he, fun hi => inv_frame (by rw [hf]) (by rw [hf]) hi⟩

theorem step_errorOut {s s' : Srv.State} {code desc : Bytes} {tid sid : Nat} {rs : List Srv.Res}
    (h : Srv.errorOut s now code desc tid sid = .ok (s', rs)) (hsid : sid < 4294967296) : Step K s s' rs := by
  unfold Srv.errorOut Srv.errorPacket at h
  split at h
  · simp at h
  · rename_i s2 p hs
    simp only [Except.ok.injEq, Prod.mk.injEq] at h
    rw [← h.1, ← h.2]
    exact step_send hs trivial (HasNow.out : Good K (epoch now)) hsid

theorem step_closeOrDelete (s : Srv.State) (args : List Val) (delete : Bool) :
    Step K s (Srv.cmdCloseOrDelete s args delete).1 (Srv.cmdCloseOrDelete s args delete).2 := by
  have triv : Step K s s [] := ⟨em_same rfl rfl, fun h => h⟩
  unfold Srv.cmdCloseOrDelete
  cases hconn : s.connected
  · simpa using triv
  · simp only [Bool.not_eq_true, Bool.true_eq_false, if_false, not_true_eq_false]
    cases happ : s.app with
    | none => simpa using triv
    | some app =>
      simp only
      match args with
      | [] => simpa using triv
      | .number x :: rest =>
        simp only
        cases hg : mapGet (F64.toU32 x) s.streams with
        | none => simpa using triv
        | some st => exact ⟨em_same rfl (outs_finished _ _), fun h => inv_frame rfl rfl h⟩
      | .boolean _ :: _ => simpa using triv
      | .str _ :: _ => simpa using triv
      | .object _ :: _ => simpa using triv
      | .array _ :: _ => simpa using triv
      | .null :: _ => simpa using triv
      | .undefined :: _ => simpa using triv

/-- leaves of the walks: a step that returns events only and changes neither serializer, nor
    deserializer, nor requests -/
theorem step_ev (s : Srv.State) (e : Srv.Event) : Step K s s [.ev e] := ⟨em_same rfl rfl, fun h => h⟩
theorem step_nil (s : Srv.State) : Step K s s [] := ⟨em_same rfl rfl, fun h => h⟩

theorem step_cmdConnect {s s' : Srv.State} {tid : Nat} {obj : Val} {rs : List Srv.Res}
    (h : Srv.cmdConnect s tid obj = .ok (s', rs)) : Step K s s' rs := by
  unfold Srv.cmdConnect at h
  (repeat' split at h)
  all_goals first
    | (simp at h; done)
    | (simp only [Except.ok.injEq, Prod.mk.injEq] at h
       obtain ⟨h1, h2⟩ := h
       subst h1; subst h2
       exact ⟨em_same rfl rfl, fun hi => inv_insert hi rfl rfl (by show (0 : Nat) < 4294967296; omega)⟩)

theorem step_cmdCreateStream {s s' : Srv.State} {tid : Nat} {rs : List Srv.Res}
    (h : Srv.cmdCreateStream s now tid = .ok (s', rs)) : Step K s s' rs := by
  unfold Srv.cmdCreateStream at h
  simp only at h
  split at h
  · simp at h
  · rename_i s2 p hs
    simp only [Except.ok.injEq, Prod.mk.injEq] at h
    rw [← h.1, ← h.2]
    have := step_send hs trivial (HasNow.out : Good K (epoch now)) (by show (0 : Nat) < 4294967296; omega)
    exact ⟨this.1, fun hi => this.2 (inv_frame rfl rfl hi)⟩

theorem step_cmdPlay {s s' : Srv.State} {sid tid : Nat} {args : List Val} {rs : List Srv.Res}
    (hsid : sid < 4294967296) (h : Srv.cmdPlay s now sid tid args = .ok (s', rs)) : Step K s s' rs := by
  unfold Srv.cmdPlay at h
  match args, h with
  | [], h => exact step_errorOut h hsid
  | a0 :: rest, h =>
    simp only at h
    (repeat' split at h)
    all_goals first
      | exact step_errorOut h hsid
      | (simp only [Except.ok.injEq, Prod.mk.injEq] at h
         obtain ⟨h1, h2⟩ := h
         subst h1; subst h2
         exact ⟨em_same rfl rfl, fun hi => inv_insert hi rfl rfl hsid⟩)

theorem step_cmdPublish {s s' : Srv.State} {sid tid : Nat} {args : List Val} {rs : List Srv.Res}
    (hsid : sid < 4294967296) (h : Srv.cmdPublish s now sid tid args = .ok (s', rs)) : Step K s s' rs := by
  unfold Srv.cmdPublish at h
  match args, h with
  | [], h => exact step_errorOut h hsid
  | [_], h => exact step_errorOut h hsid
  | a0 :: a1 :: _, h =>
    simp only at h
    (repeat' split at h)
    all_goals first
      | exact step_errorOut h hsid
      | (simp at h; done)
      | (simp only [Except.ok.injEq, Prod.mk.injEq] at h
         obtain ⟨h1, h2⟩ := h
         subst h1; subst h2
         exact ⟨em_same rfl rfl, fun hi => inv_insert hi rfl rfl hsid⟩)
      | (rename_i s2 p hs
         simp only [Except.ok.injEq, Prod.mk.injEq] at h
         rw [← h.1, ← h.2]
         exact step_send hs trivial (HasNow.out : Good K (epoch now)) hsid)

theorem step_handleCommand {s s' : Srv.State} {sid : Nat} {name : Bytes} {tid : Nat} {obj : Val} {args : List Val}
    {rs : List Srv.Res} (hsid : sid < 4294967296)
    (h : Srv.handleCommand s now sid name tid obj args = .ok (s', rs)) : Step K s s' rs := by
  unfold Srv.handleCommand at h
  split at h
  · exact step_cmdConnect h
  · split at h
    · simp only [Except.ok.injEq] at h
      have := step_closeOrDelete (K := K) s args false
      rw [h] at this; exact this
    · split at h
      · exact step_cmdCreateStream h
      · split at h
        · simp only [Except.ok.injEq] at h
          have := step_closeOrDelete (K := K) s args true
          rw [h] at this; exact this
        · split at h
          · exact step_cmdPlay hsid h
          · split at h
            · exact step_cmdPublish hsid h
            · simp only [Except.ok.injEq, Prod.mk.injEq] at h
              rw [← h.1, ← h.2]; exact step_ev _ _

theorem step_handleMessage {s s' : Srv.State} {p : Msg} {m : RtmpMsg} {rs : List Srv.Res}
    (hsid : p.msid < 4294967296) (h : Srv.handleMessage s now p m = .ok (s', rs)) : Step K s s' rs := by
  unfold Srv.handleMessage at h
  cases m with
  | amf0Command name tid obj args => exact step_handleCommand hsid h
  | amf0Data vals =>
    simp only [Except.ok.injEq, Prod.mk.injEq] at h
    rw [← h.1, ← h.2]; exact ⟨em_same rfl (outs_handleData _ _ _), fun hi => hi⟩
  | audio d =>
    simp only [Except.ok.injEq, Prod.mk.injEq] at h
    rw [← h.1, ← h.2]; exact ⟨em_same rfl (outs_handleMedia _ _ _ _ _), fun hi => hi⟩
  | video d =>
    simp only [Except.ok.injEq, Prod.mk.injEq] at h
    rw [← h.1, ← h.2]; exact ⟨em_same rfl (outs_handleMedia _ _ _ _ _), fun hi => hi⟩
  | setChunkSize n =>
    simp only at h
    split at h
    · simp at h
    · rename_i c hc
      simp only [Except.ok.injEq, Prod.mk.injEq] at h
      rw [← h.1, ← h.2]
      exact ⟨em_same rfl rfl, fun hi => ⟨Des.setMaxChunkSize_ok hi.1 hc, hi.2⟩⟩
  | userControl ev a b ts =>
    simp only at h
    cases ev <;> simp only at h
    all_goals first
      | (simp only [Except.ok.injEq, Prod.mk.injEq] at h; rw [← h.1, ← h.2]
         first | exact step_nil _ | exact step_ev _ _)
      | (split at h
         · simp at h
         · rename_i s2 pk hs
           simp only [Except.ok.injEq, Prod.mk.injEq] at h
           rw [← h.1, ← h.2]
           exact step_send hs trivial (HasNow.out : Good K (epoch now)) (by show (0 : Nat) < 4294967296; omega))
  | abort _ => simp only [Except.ok.injEq, Prod.mk.injEq] at h; rw [← h.1, ← h.2]; exact step_nil _
  | ack n => simp only [Except.ok.injEq, Prod.mk.injEq] at h; rw [← h.1, ← h.2]; exact step_ev _ _
  | setPeerBandwidth _ _ => simp only [Except.ok.injEq, Prod.mk.injEq] at h; rw [← h.1, ← h.2]; exact step_nil _
  | windowAck n =>
    simp only [Except.ok.injEq, Prod.mk.injEq] at h; rw [← h.1, ← h.2]
    exact ⟨em_same rfl rfl, fun hi => inv_frame rfl rfl hi⟩
  | unknown _ _ =>
    simp only [Except.ok.injEq, Prod.mk.injEq] at h; rw [← h.1, ← h.2]
    exact ⟨em_same rfl rfl, fun hi => hi⟩

theorem rejectRequest_step {s s' : Srv.State} {id : Nat} {code desc : Bytes} {r : Except Err (List Srv.Res)}
    (hi : Inv s) (h : Srv.rejectRequest s now id code desc = (s', r)) :
    Inv s' ∧ (∀ rs, r = .ok rs → Em K s s' rs) := by
  unfold Srv.rejectRequest at h
  cases hg : mapGet id s.reqs with
  | none =>
    simp only [hg, Prod.mk.injEq] at h; rw [← h.1, ← h.2]; exact ⟨hi, fun rs hr => by cases hr⟩
  | some req =>
    simp only [hg] at h
    have hrm : Inv { s with reqs := mapRemove id s.reqs } := inv_remove hi id _ rfl rfl
    have hsid := hi.2 id req hg
    have key : ∀ tid sid, sid < 4294967296 →
        (match Srv.errorPacket { s with reqs := mapRemove id s.reqs } now code desc tid sid with
          | .error e => (({ s with reqs := mapRemove id s.reqs } : Srv.State), (Except.error e : Except Err (List Srv.Res)))
          | .ok (s1, p) => (s1, .ok [.out p])) = (s', r) →
        Inv s' ∧ (∀ rs, r = .ok rs → Em K s s' rs) := by
      intro tid sid hb h
      split at h
      · simp only [Prod.mk.injEq] at h; rw [← h.1, ← h.2]; exact ⟨hrm, fun rs hr => by cases hr⟩
      · rename_i s1 p hp
        simp only [Prod.mk.injEq] at h; rw [← h.1, ← h.2]
        unfold Srv.errorPacket at hp
        have hst := step_send hp trivial (HasNow.out : Good K (epoch now)) hb
        exact ⟨hst.2 hrm, fun rs hr => by simp only [Except.ok.injEq] at hr; rw [← hr]; exact hst.1⟩
    cases req with
    | connection app tid => exact key tid 0 (by omega) h
    | publish key' mode sid => exact key 0 sid hsid h
    | play key' sid => exact key 0 sid hsid h

theorem em_cons {a b c : Srv.State} {p : Ser.Packet} {rs : List Srv.Res} (h1 : Em K a b [.out p]) (h2 : Em K b c rs) :
    Em K a c (.out p :: rs) := em_trans h1 h2

theorem acceptRequest_step {s s' : Srv.State} {id : Nat} {r : Except Err (List Srv.Res)}
    (hi : Inv s) (h : Srv.acceptRequest s now id = (s', r)) :
    Inv s' ∧ (∀ rs, r = .ok rs → Em K s s' rs) := by
  unfold Srv.acceptRequest at h
  cases hg : mapGet id s.reqs with
  | none =>
    simp only [hg, Prod.mk.injEq] at h; rw [← h.1, ← h.2]; exact ⟨hi, fun rs hr => by cases hr⟩
  | some req =>
    simp only [hg] at h
    have hrm : Inv { s with reqs := mapRemove id s.reqs } := inv_remove hi id _ rfl rfl
    have hsid := hi.2 id req hg
    have z : (0 : Nat) < 4294967296 := by omega
    cases req with
    | connection app tid =>
      simp only at h
      split at h
      · simp only [Prod.mk.injEq] at h; rw [← h.1, ← h.2]
        exact ⟨inv_frame rfl rfl hrm, fun rs hr => by cases hr⟩
      · rename_i s2 p hs
        simp only [Prod.mk.injEq] at h; rw [← h.1, ← h.2]
        have hst := step_send hs trivial (HasNow.out : Good K (epoch now)) z
        exact ⟨hst.2 (inv_frame rfl rfl hrm), fun rs hr => by simp only [Except.ok.injEq] at hr; rw [← hr]; exact hst.1⟩
    | publish key mode sid =>
      simp only at h
      split at h
      · simp only [Prod.mk.injEq] at h; rw [← h.1, ← h.2]; exact ⟨hrm, fun rs hr => by cases hr⟩
      · have hi1 : Inv { ({ s with reqs := mapRemove id s.reqs } : Srv.State) with
            streams := mapInsert sid (.publishing key mode) s.streams } := inv_frame rfl rfl hrm
        split at h
        · simp only [Prod.mk.injEq] at h; rw [← h.1, ← h.2]; exact ⟨hi1, fun rs hr => by cases hr⟩
        · rename_i s2 p1 hs1
          have st1 := step_send hs1 trivial (HasNow.out : Good K (epoch now)) hsid
          split at h
          · simp only [Prod.mk.injEq] at h; rw [← h.1, ← h.2]; exact ⟨st1.2 hi1, fun rs hr => by cases hr⟩
          · rename_i s3 p2 hs2
            have st2 := step_send hs2 trivial (HasNow.out : Good K (epoch now)) hsid
            simp only [Prod.mk.injEq] at h; rw [← h.1, ← h.2]
            exact ⟨st2.2 (st1.2 hi1), fun rs hr => by
              simp only [Except.ok.injEq] at hr; rw [← hr]; exact em_cons st1.1 st2.1⟩
    | play key sid =>
      simp only at h
      split at h
      · simp only [Prod.mk.injEq] at h; rw [← h.1, ← h.2]; exact ⟨hrm, fun rs hr => by cases hr⟩
      · have hi1 : Inv { ({ s with reqs := mapRemove id s.reqs } : Srv.State) with
            streams := mapInsert sid (.playing key) s.streams } := inv_frame rfl rfl hrm
        split at h
        · simp only [Prod.mk.injEq] at h; rw [← h.1, ← h.2]; exact ⟨hi1, fun rs hr => by cases hr⟩
        · rename_i s2 p1 hs1
          have st1 := step_send hs1 trivial (HasNow.out : Good K (epoch now)) hsid
          split at h
          · simp only [Prod.mk.injEq] at h; rw [← h.1, ← h.2]; exact ⟨st1.2 hi1, fun rs hr => by cases hr⟩
          · rename_i s3 p2 hs2
            have st2 := step_send hs2 trivial (HasNow.out : Good K (epoch now)) hsid
            split at h
            · simp only [Prod.mk.injEq] at h; rw [← h.1, ← h.2]; exact ⟨st2.2 (st1.2 hi1), fun rs hr => by cases hr⟩
            · rename_i s4 p3 hs3
              have st3 := step_send hs3 trivial (HasNow.out : Good K (epoch now)) hsid
              split at h
              · simp only [Prod.mk.injEq] at h; rw [← h.1, ← h.2]
                exact ⟨st3.2 (st2.2 (st1.2 hi1)), fun rs hr => by cases hr⟩
              · rename_i s5 p4 hs4
                have st4 := step_send hs4 trivial (HasNow.out : Good K (epoch now)) hsid
                split at h
                · simp only [Prod.mk.injEq] at h; rw [← h.1, ← h.2]
                  exact ⟨st4.2 (st3.2 (st2.2 (st1.2 hi1))), fun rs hr => by cases hr⟩
                · rename_i s6 p5 hs5
                  have st5 := step_send hs5 trivial (HasNow.out : Good K (epoch now)) hsid
                  simp only [Prod.mk.injEq] at h; rw [← h.1, ← h.2]
                  exact ⟨st5.2 (st4.2 (st3.2 (st2.2 (st1.2 hi1)))), fun rs hr => by
                    simp only [Except.ok.injEq] at hr; rw [← hr]
                    exact em_cons st1.1 (em_cons st2.1 (em_cons st3.1 (em_cons st4.1 st5.1)))⟩



end Rml.SrvTs
