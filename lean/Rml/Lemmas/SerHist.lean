/-
Thm A at the level of whole histories: messages and chunk-size changes in any order, any subset of the
droppable packets removed.
-/
import Rml.Lemmas.SerSpec
import Rml.Props.C19
namespace Rml.SerHist
open Rml Rml.Bytes Rml.Chunk Rml.SerSpec
open Rml.C19 (SerOp applyOp)

/-- the message a history step puts on the wire -/
def msgOf : SerOp → Msg
  | .msg m _ _ => m
  | .setcs n ts => { ts := ts, typ := 1, msid := 0, data := be32 n }

/-- what the Rust types guarantee about a step (u32 timestamp and stream id, u8 type id), plus reading 11
    of DESIGN.md §9a: a type-1 payload handed directly to `serialize` (instead of calling
    `set_max_chunk_size`) does not announce a size other than the one in force -/
def OpWF (s : Ser.State) : SerOp → Prop
  | .msg m _ _ => m.ts < 4294967296 ∧ m.msid < 4294967296 ∧ m.typ < 256 ∧
      (m.typ = 1 → parseSetChunkSize m.data = none ∨ parseSetChunkSize m.data = some s.maxCs)
  | .setcs _ ts => ts < 4294967296

/-- state after a step (refused steps leave it unchanged) -/
def after (s : Ser.State) (op : SerOp) : Ser.State :=
  match applyOp s op with
  | .ok (s', _) => s'
  | _ => s

def HistWF (s : Ser.State) : List SerOp → Prop
  | [] => True
  | op :: rest => OpWF s op ∧ HistWF (after s op) rest

/-- the packets a history returns, each with the message it carries -/
def trace (s : Ser.State) : List SerOp → List (Ser.Packet × Msg)
  | [] => []
  | op :: rest =>
    match applyOp s op with
    | .ok (_, p) => (p, msgOf op) :: trace (after s op) rest
    | _ => trace (after s op) rest

/-- remove the droppable packets whose mask bit is `false` (a missing bit counts as `true`) -/
def keepSel : List Bool → List (Ser.Packet × Msg) → List (Ser.Packet × Msg)
  | _, [] => []
  | mask, (p, m) :: rest =>
    if p.drop && !(mask.headD true) then keepSel mask.tail rest
    else (p, m) :: keepSel mask.tail rest

def wire (xs : List (Ser.Packet × Msg)) : Bytes := (xs.map (·.1.bytes)).flatten
def msgs (xs : List (Ser.Packet × Msg)) : List Msg := xs.map (·.2)

theorem SR_init : SR {} {} := by
  refine ⟨rfl, by decide, ?_, ?_⟩
  · intro k st h; simp [mapGet] at h
  · intro k h hh; simp [mapGet] at hh

theorem SR_after {ser ser' : Ser.State} {sp sp' : Spec.Chunk.State} {m : Msg} {force drop : Bool} {h2 : Ser.Hdr}
    (hSR : SR ser sp) (hc : Ctx m force drop h2) (hts : m.ts < 4294967296)
    (hu1 : UpdAt (Ser.csidFor m.typ) h2 ser.prev ser'.prev)
    (hu2 : UpdAt (Ser.csidFor m.typ) (stOf h2 [] false) sp.streams sp'.streams)
    (hcs : sp'.cs = ser'.maxCs) (hpos : 1 ≤ ser'.maxCs) : SR ser' sp' := by
  refine ⟨hcs, hpos, ?_, ?_⟩
  · intro k st hg
    rw [hu2 k] at hg
    by_cases hk : k = Ser.csidFor m.typ
    · simp only [hk, if_true, Option.some.injEq] at hg; subst hg; exact ⟨rfl, rfl⟩
    · simp only [hk, if_false] at hg; exact hSR.idle k st hg
  · intro k h hg
    rw [hu1 k] at hg
    by_cases hk : k = Ser.csidFor m.typ
    · simp only [hk, if_true, Option.some.injEq] at hg; subst hg
      refine ⟨hc.wf, by rw [hk]; exact hc.csid, by rw [hc.ts]; exact hts, fun _ => ?_⟩
      rw [hu2 k]; simp [hk]
    · simp only [hk, if_false] at hg
      obtain ⟨a1, a2, a3, a4⟩ := hSR.hdr k h hg
      refine ⟨a1, a2, a3, fun hd => ?_⟩
      rw [hu2 k]; simp only [hk, if_false]; exact a4 hd

theorem SR_skip {ser ser' : Ser.State} {sp : Spec.Chunk.State} {m : Msg} {force drop : Bool} {h2 : Ser.Hdr}
    (hSR : SR ser sp) (hc : Ctx m force drop h2) (hts : m.ts < 4294967296) (hd : h2.drop = true)
    (hu1 : UpdAt (Ser.csidFor m.typ) h2 ser.prev ser'.prev) (hmax : ser'.maxCs = ser.maxCs) : SR ser' sp := by
  refine ⟨by rw [hmax]; exact hSR.cs, by rw [hmax]; exact hSR.pos, hSR.idle, ?_⟩
  intro k h hg
  rw [hu1 k] at hg
  by_cases hk : k = Ser.csidFor m.typ
  · simp only [hk, if_true, Option.some.injEq] at hg; subst hg
    exact ⟨hc.wf, by rw [hk]; exact hc.csid, by rw [hc.ts]; exact hts, fun hf => by rw [hd] at hf; cases hf⟩
  · simp only [hk, if_false] at hg
    exact hSR.hdr k h hg

theorem parse_be32 (n : Nat) (h : n ≤ maxChunkSize) : parseSetChunkSize (be32 n) = some n := by
  have hn : n < 4294967296 := by simp only [maxChunkSize] at h; omega
  simp only [be32, parseSetChunkSize, rd32, b_toNat]
  have : n / 16777216 % 256 * 16777216 + n / 65536 % 256 * 65536 + n / 256 % 256 * 256 + n % 256 = n := by omega
  rw [this]
  simp only [maxChunkSize] at h ⊢
  have : ¬ n > 2147483647 := by omega
  simp [this]

/-- one accepted step: its packet is read as its message, and the two states stay related — also
    when the packet is droppable and is not delivered -/
theorem step_reads (s : Ser.State) (sp : Spec.Chunk.State) (hSR : SR s sp) (op : SerOp) (hwf : OpWF s op)
    (s' : Ser.State) (p : Ser.Packet) (h : applyOp s op = .ok (s', p)) :
    (∃ sp', SR s' sp' ∧ ∀ tail ms sE cE, Reads sp' none tail ms sE cE → Reads sp none (p.bytes ++ tail) (msgOf op :: ms) sE cE) ∧
    (p.drop = true → SR s' sp) := by
  cases op with
  | msg m force drop =>
    obtain ⟨hts, hmsid, htyp, hraw⟩ := hwf
    have hpos := hSR.pos
    have hnew : DesSpec.newCs sp.cs m = sp.cs ∧ Spec.Chunk.msgOk (some m) = true := by
      unfold DesSpec.newCs Spec.Chunk.msgOk
      by_cases ht : m.typ = 1
      · rcases hraw ht with hn | hs
        · simp [ht, hn]
        · have : s.maxCs ≥ 1 := hpos
          have hne : s.maxCs ≠ 0 := by omega
          simp [ht, hs, this, hSR.cs, hne]
      · simp [ht]
    obtain ⟨h2, sp', hc, hpd, hmax, hu1, hu2, hcs', hrd⟩ :=
      message_reads s sp hSR m hts hmsid htyp hnew.2 force drop s' p h
    constructor
    · refine ⟨sp', SR_after hSR hc hts hu1 hu2 (by rw [hcs', hnew.1, hmax]; exact hSR.cs) (by rw [hmax]; exact hpos), hrd⟩
    · intro hd
      exact SR_skip hSR hc hts (by rw [hc.drop, ← hpd]; exact hd) hu1 hmax
  | setcs n ts =>
    have hts : ts < 4294967296 := hwf
    simp only [applyOp, Ser.setMaxChunkSize] at h
    by_cases hn : n = 0 ∨ n > maxChunkSize
    · simp [hn] at h
    · simp only [hn, if_false] at h
      cases hser : Ser.serialize s { ts := ts, typ := 1, msid := 0, data := be32 n } true false with
      | err e => simp [hser] at h
      | hang => simp [hser] at h
      | ok r =>
        obtain ⟨s1, p1⟩ := r
        simp only [hser, Ser.Outcome.ok.injEq, Prod.mk.injEq] at h
        obtain ⟨hs', hp⟩ := h
        subst hp
        have hnle : n ≤ maxChunkSize := by omega
        have hparse := parse_be32 n hnle
        have hn1 : n ≥ 1 := by omega
        have hok : Spec.Chunk.msgOk (some ({ ts := ts, typ := 1, msid := 0, data := be32 n } : Msg)) = true := by
          unfold Spec.Chunk.msgOk
          have : n ≠ 0 := by omega
          simp [hparse, this]
        obtain ⟨h2, sp', hc, hpd, hmax, hu1, hu2, hcs', hrd⟩ :=
          message_reads s sp hSR _ hts (by show (0 : Nat) < 4294967296; omega) (by show (1 : Nat) < 256; omega) hok true false s1 p1 hser
        have hnew : DesSpec.newCs sp.cs ({ ts := ts, typ := 1, msid := 0, data := be32 n } : Msg) = n := by
          unfold DesSpec.newCs; simp [hparse, hn1]
        constructor
        · refine ⟨sp', ?_, hrd⟩
          rw [← hs']
          exact SR_after (ser' := { s1 with maxCs := n }) hSR hc hts hu1 hu2 (by rw [hcs', hnew]) hn1
        · intro hd; rw [hpd] at hd; cases hd

theorem trace_ok {s s' : Ser.State} {op : SerOp} {p : Ser.Packet} {rest : List SerOp}
    (h : applyOp s op = .ok (s', p)) : trace s (op :: rest) = (p, msgOf op) :: trace s' rest ∧ after s op = s' := by
  simp [trace, after, h]

/-- state after a whole history -/
def runAll (s : Ser.State) : List SerOp → Ser.State
  | [] => s
  | op :: rest => runAll (after s op) rest

/-- **Thm A.**  For every well-typed history run from related states and every choice of droppable
    packets to omit, the remaining bytes are read by the specification reader as exactly the
    messages of the remaining packets — and the reader ends in a state related to the serializer's. -/
theorem hist_reads : ∀ (ops : List SerOp) (s : Ser.State) (sp : Spec.Chunk.State) (mask : List Bool),
    SR s sp → HistWF s ops →
    ∃ sE, Reads sp none (wire (keepSel mask (trace s ops))) (msgs (keepSel mask (trace s ops))) sE none ∧
      SR (runAll s ops) sE := by
  intro ops
  induction ops with
  | nil => intro s sp mask hSR _; exact ⟨sp, Reads.nil _ _, hSR⟩
  | cons op rest ih =>
    intro s sp mask hSR hwf
    obtain ⟨hop, hrest⟩ := hwf
    cases happ : applyOp s op with
    | err e =>
      have h1 : trace s (op :: rest) = trace s rest := by simp [trace, after, happ]
      have h2 : after s op = s := by simp [after, happ]
      rw [h1]; rw [h2] at hrest
      have := ih s sp mask hSR hrest
      simp only [runAll, h2]; exact this
    | hang =>
      have h1 : trace s (op :: rest) = trace s rest := by simp [trace, after, happ]
      have h2 : after s op = s := by simp [after, happ]
      rw [h1]; rw [h2] at hrest
      have := ih s sp mask hSR hrest
      simp only [runAll, h2]; exact this
    | ok r =>
      obtain ⟨s', p⟩ := r
      obtain ⟨h1, h2⟩ := trace_ok (rest := rest) happ
      rw [h1]; rw [h2] at hrest
      obtain ⟨⟨sp', hSR', hrd⟩, hskip⟩ := step_reads s sp hSR op hop s' p happ
      simp only [runAll, h2]
      unfold keepSel
      by_cases hdrop : (p.drop && !(mask.headD true)) = true
      · simp only [hdrop, if_true]
        have hd : p.drop = true := by
          cases hp : p.drop with
          | true => rfl
          | false => rw [hp] at hdrop; simp at hdrop
        exact ih s' sp mask.tail (hskip hd) hrest
      · simp only [hdrop]
        obtain ⟨sE, hr, hsr⟩ := ih s' sp' mask.tail hSR' hrest
        refine ⟨sE, ?_, hsr⟩
        have := hrd _ _ _ _ hr
        simpa [wire, msgs] using this

end Rml.SerHist
