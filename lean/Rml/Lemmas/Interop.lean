/-
C02, the media path from a publishing client to the server, end to end: application calls on the client,
serializer, bytes (any droppable packets omitted), the server's deserializer and message loop, events.
-/
import Rml.Lemmas.SrvFold
import Rml.Lemmas.CliFold
import Rml.Lemmas.CliEmit
import Rml.Props.C09
import Rml.Props.C08
namespace Rml.Interop
open Rml Rml.Bytes Rml.Chunk Rml.Amf0 Rml.Msgs Rml.Sess Rml.Emit Rml.SerHist

/-- a media item as the application hands it to `publish_video_data` / `publish_audio_data` -/
structure Item where
  video : Bool
  data : Bytes
  ts : Nat
  drop : Bool

def Item.msg (sid : Nat) (it : Item) : Msg :=
  { ts := it.ts, typ := if it.video then 9 else 8, msid := sid, data := it.data }

/-- publish the items one after another; `none` if a call is refused -/
def publishAll (c : Cli.State) : List Item → Option (Cli.State × List Ser.Packet)
  | [] => some (c, [])
  | it :: rest =>
    match Cli.publishMedia c it.video it.data it.ts it.drop with
    | (c1, .ok (.out p)) =>
      match publishAll c1 rest with
      | some (c2, ps) => some (c2, p :: ps)
      | none => none
    | _ => none

theorem publishMedia_emits {c c1 : Cli.State} {it : Item} {p : Ser.Packet} {sid : Nat}
    (hs : c.st = .publishing) (ha : c.activeStream = some sid) (hsid : sid < 4294967296) (hts : it.ts < 4294967296)
    (h : Cli.publishMedia c it.video it.data it.ts it.drop = (c1, .ok (.out p))) :
    Emits c.ser c1.ser [(p, it.msg sid)] ∧ p.drop = it.drop ∧ c1 = { c with ser := c1.ser } := by
  unfold Cli.publishMedia Cli.publishGuard at h
  simp only [hs, ha, ne_eq, not_true_eq_false, if_false] at h
  unfold Cli.send sendMsg at h
  have hp : toPayload (if it.video then RtmpMsg.video it.data else RtmpMsg.audio it.data) =
      .ok ((if it.video then 9 else 8), it.data) := by cases it.video <;> rfl
  simp only [hp] at h
  cases hser : Ser.serialize c.ser { ts := it.ts, typ := (if it.video then 9 else 8), msid := sid, data := it.data } false it.drop with
  | err e => simp [hser] at h
  | hang => simp [hser] at h
  | ok r =>
    obtain ⟨ser', p'⟩ := r
    simp only [hser, Prod.mk.injEq, Except.ok.injEq, Cli.Res.out.injEq] at h
    obtain ⟨h1, h2⟩ := h
    subst h1; subst h2
    refine ⟨Emits.msg hser hts hsid (by show (if it.video then 9 else 8) < 256; split <;> omega)
      (by show (if it.video then 9 else 8) ≠ 1; split <;> omega), ?_, rfl⟩
    exact (C08.serialize_drop _ _ _ _ _ _ hser)

theorem publishAll_emits (items : List Item) : ∀ (c c' : Cli.State) (ps : List Ser.Packet) (sid : Nat),
    c.st = .publishing → c.activeStream = some sid → sid < 4294967296 → (∀ it ∈ items, it.ts < 4294967296) →
    publishAll c items = some (c', ps) →
    Emits c.ser c'.ser (ps.zip (items.map (Item.msg sid))) ∧ ps.length = items.length ∧
      c'.st = .publishing ∧ c'.activeStream = some sid := by
  induction items with
  | nil =>
    intro c c' ps sid hs ha _ _ h
    simp only [publishAll, Option.some.injEq, Prod.mk.injEq] at h
    rw [← h.1, ← h.2]; exact ⟨Emits.nil _, rfl, hs, ha⟩
  | cons it rest ih =>
    intro c c' ps sid hs ha hsid hts h
    simp only [publishAll] at h
    cases hp : Cli.publishMedia c it.video it.data it.ts it.drop with
    | mk c1 r =>
      rw [hp] at h
      cases r with
      | error e => simp at h
      | ok res =>
        cases res with
        | ev e => simp at h
        | unhandled m => simp at h
        | out p =>
          simp only at h
          obtain ⟨he, _, hc1⟩ := publishMedia_emits hs ha hsid (hts it (List.mem_cons_self ..)) hp
          cases hrest : publishAll c1 rest with
          | none => simp [hrest] at h
          | some q =>
            obtain ⟨c2, ps2⟩ := q
            simp only [hrest, Option.some.injEq, Prod.mk.injEq] at h
            obtain ⟨h1, h2⟩ := h
            subst h1; subst h2
            obtain ⟨he2, hl, hs2, ha2⟩ := ih c1 c2 ps2 sid (by rw [hc1]; exact hs) (by rw [hc1]; exact ha) hsid
              (fun x hx => hts x (List.mem_cons_of_mem _ hx)) hrest
            refine ⟨?_, by simp [hl], hs2, ha2⟩
            simpa using he.trans he2

/-- the event the server raises for a media message -/
def evOf (app key : Bytes) (m : Msg) : List Srv.Res :=
  [if m.typ = 9 then .ev (.video app key m.data m.ts) else .ev (.audio app key m.data m.ts)]

theorem keepSel_sub {xs : List (Ser.Packet × Msg)} : ∀ {mask : List Bool} {x : Ser.Packet × Msg},
    x ∈ keepSel mask xs → x ∈ xs := by
  induction xs with
  | nil => intro mask x h; simp [keepSel] at h
  | cons y ys ih =>
    intro mask x h
    obtain ⟨p, m⟩ := y
    unfold keepSel at h
    split at h
    · exact List.mem_cons_of_mem _ (ih h)
    · rcases List.mem_cons.mp h with rfl | h'
      · exact List.mem_cons_self ..
      · exact List.mem_cons_of_mem _ (ih h')

/-- **C02, publishing path.**  A client that is publishing on stream `sid` and a server on which that
    stream is publishing under `key` in application `app`, in step (the server has consumed everything
    the client sent so far).  The application publishes ANY list of audio / video items (any bytes, any
    32-bit timestamps, either flag); ANY subset of the packets marked droppable is omitted; the rest is
    delivered.  Then the server's message loop raises, for exactly the items that were not omitted, in
    order, one event each carrying the item's bytes and timestamp, tagged `app` and `key` — nothing else —
    and client and server are in step again.  (Any partition of the delivery: `C15_server_session`.) -/
theorem publish_media (c c' : Cli.State) (v : Srv.State) (items : List Item) (ps : List Ser.Packet)
    (sid now : Nat) (app key : Bytes) (mode : Srv.PublishMode) (mask : List Bool)
    (hs : c.st = .publishing) (ha : c.activeStream = some sid) (hsid : sid < 4294967296)
    (hts : ∀ it ∈ items, it.ts < 4294967296)
    (hvc : v.connected = true) (hva : v.app = some app) (hvs : mapGet sid v.streams = some (.publishing key mode))
    (hlink : Link.Linked c.ser v.des)
    (hpub : publishAll c items = some (c', ps)) :
    let kept := keepSel mask (ps.zip (items.map (Item.msg sid)))
    ∃ core', SrvPart.drain v now (wire kept) =
        ({ v with des := { core := core', buf := [] } }, .ok ((msgs kept).flatMap (evOf app key))) ∧
      Link.Linked c'.ser { core := core', buf := [] } := by
  intro kept
  obtain ⟨hem, _, _, _⟩ := publishAll_emits items c c' ps sid hs ha hsid hts hpub
  obtain ⟨core', hfeed, hlink'⟩ := Link.linked_emits hlink hem mask
  refine ⟨core', ?_, hlink'⟩
  obtain ⟨_, _, _, hbuf⟩ := hlink
  have hrun : Des.run v.des.core (wire kept) [] = { core := core', buf := [], msgs := msgs kept, err := none } := by
    rw [Des.feed_eq_run, hbuf] at hfeed; simpa using hfeed
  -- every delivered message is one of the published items
  have hmem : ∀ m ∈ msgs kept, ∃ it ∈ items, m = it.msg sid := by
    intro m hm
    simp only [msgs, List.mem_map] at hm
    obtain ⟨x, hx, rfl⟩ := hm
    have hx' := keepSel_sub hx
    have := (List.of_mem_zip hx').2
    simp only [List.mem_map] at this
    obtain ⟨it, hit, he⟩ := this
    exact ⟨it, hit, he.symm⟩
  unfold SrvPart.drain
  have hstate : BufS.withBuf v (v.des.buf ++ wire kept) = { v with des := { core := v.des.core, buf := wire kept } } := by
    unfold BufS.withBuf; rw [hbuf]; rfl
  rw [hstate]
  have := SrvFold.msgLoop_plain v now (evOf app key) (msgs kept) ((wire kept).length + v.des.buf.length + 2)
    v.des.core (wire kept) core' [] hrun
    (fun m hm => by obtain ⟨it, _, rfl⟩ := hmem m hm; show (if it.video then 9 else 8) ≠ 1; split <;> omega)
    (fun m hm d => by
      obtain ⟨it, _, rfl⟩ := hmem m hm
      cases hv : it.video with
      | true =>
        refine ⟨.video it.data, by simp [Item.msg, hv, fromPayload], ?_⟩
        have h := (C09.C09_media_iff_publishing { v with des := d } true it.data sid it.ts).2 app key mode hvc hva hvs
        simp only [Srv.handleMessage, h, evOf, Item.msg, hv, if_true]
      | false =>
        refine ⟨.audio it.data, by simp [Item.msg, hv, fromPayload], ?_⟩
        have h := (C09.C09_media_iff_publishing { v with des := d } false it.data sid it.ts).2 app key mode hvc hva hvs
        simp only [Srv.handleMessage, h, evOf, Item.msg, hv]
        simp)
    (by
      have := SrvPart.fuelOK_drain v (wire kept)
      rw [hstate] at this; exact this)
  simpa using this

/-- send the items one after another on stream `sid`; `none` if a call is refused -/
def sendAll (v : Srv.State) (sid : Nat) : List Item → Option (Srv.State × List Ser.Packet)
  | [] => some (v, [])
  | it :: rest =>
    match Srv.sendMedia v it.video sid it.data it.ts it.drop with
    | (v1, .ok p) =>
      match sendAll v1 sid rest with
      | some (v2, ps) => some (v2, p :: ps)
      | none => none
    | _ => none

theorem sendMedia_emits {v v1 : Srv.State} {it : Item} {p : Ser.Packet} {sid : Nat}
    (hsid : sid < 4294967296) (hts : it.ts < 4294967296)
    (h : Srv.sendMedia v it.video sid it.data it.ts it.drop = (v1, .ok p)) :
    Emits v.ser v1.ser [(p, it.msg sid)] := by
  unfold Srv.sendMedia Srv.send sendMsg at h
  have hp : toPayload (if it.video then RtmpMsg.video it.data else RtmpMsg.audio it.data) =
      .ok ((if it.video then 9 else 8), it.data) := by cases it.video <;> rfl
  simp only [hp] at h
  cases hser : Ser.serialize v.ser { ts := it.ts, typ := (if it.video then 9 else 8), msid := sid, data := it.data } false it.drop with
  | err e => simp [hser] at h
  | hang => simp [hser] at h
  | ok r =>
    obtain ⟨ser', p'⟩ := r
    simp only [hser, Prod.mk.injEq, Except.ok.injEq] at h
    obtain ⟨h1, h2⟩ := h
    subst h1; subst h2
    exact Emits.msg hser hts hsid (by show (if it.video then 9 else 8) < 256; split <;> omega)
      (by show (if it.video then 9 else 8) ≠ 1; split <;> omega)

theorem sendAll_emits (items : List Item) : ∀ (v v' : Srv.State) (ps : List Ser.Packet) (sid : Nat),
    sid < 4294967296 → (∀ it ∈ items, it.ts < 4294967296) → sendAll v sid items = some (v', ps) →
    Emits v.ser v'.ser (ps.zip (items.map (Item.msg sid))) := by
  induction items with
  | nil =>
    intro v v' ps sid _ _ h
    simp only [sendAll, Option.some.injEq, Prod.mk.injEq] at h
    rw [← h.1, ← h.2]; exact Emits.nil _
  | cons it rest ih =>
    intro v v' ps sid hsid hts h
    simp only [sendAll] at h
    cases hp : Srv.sendMedia v it.video sid it.data it.ts it.drop with
    | mk v1 r =>
      rw [hp] at h
      cases r with
      | error e => simp at h
      | ok p =>
        simp only at h
        have he := sendMedia_emits hsid (hts it (List.mem_cons_self ..)) hp
        cases hrest : sendAll v1 sid rest with
        | none => simp [hrest] at h
        | some q =>
          obtain ⟨v2, ps2⟩ := q
          simp only [hrest, Option.some.injEq, Prod.mk.injEq] at h
          obtain ⟨h1, h2⟩ := h
          subst h1; subst h2
          have he2 := ih v1 v2 ps2 sid hsid (fun x hx => hts x (List.mem_cons_of_mem _ hx)) hrest
          simpa using he.trans he2

/-- the event the client raises for a media message -/
def evOfC (m : Msg) : List Cli.Res :=
  [if m.typ = 9 then .ev (.video m.ts m.data) else .ev (.audio m.ts m.data)]

/-- **C02, playing path.**  A server and a client whose playback of stream `sid` is requested or running,
    in step.  The server application sends ANY list of audio / video items on `sid`; ANY subset of the
    droppable packets is omitted; the rest is delivered.  The client raises, for exactly the items not
    omitted, in order, one event each with the item's bytes and timestamp, and the two are in step again. -/
theorem play_media (v v' : Srv.State) (c : Cli.State) (items : List Item) (ps : List Ser.Packet)
    (sid now : Nat) (mask : List Bool)
    (hs : c.st = .playing ∨ c.st = .playRequested) (ha : c.activeStream = some sid) (hsid : sid < 4294967296)
    (hts : ∀ it ∈ items, it.ts < 4294967296)
    (hlink : Link.Linked v.ser c.des)
    (hsend : sendAll v sid items = some (v', ps)) :
    let kept := keepSel mask (ps.zip (items.map (Item.msg sid)))
    ∃ core', CliPart.drain c now (wire kept) =
        ({ c with des := { core := core', buf := [] } }, .ok ((msgs kept).flatMap evOfC)) ∧
      Link.Linked v'.ser { core := core', buf := [] } := by
  intro kept
  have hem := sendAll_emits items v v' ps sid hsid hts hsend
  obtain ⟨core', hfeed, hlink'⟩ := Link.linked_emits hlink hem mask
  refine ⟨core', ?_, hlink'⟩
  obtain ⟨_, _, _, hbuf⟩ := hlink
  have hrun : Des.run c.des.core (wire kept) [] = { core := core', buf := [], msgs := msgs kept, err := none } := by
    rw [Des.feed_eq_run, hbuf] at hfeed; simpa using hfeed
  have hmem : ∀ m ∈ msgs kept, ∃ it ∈ items, m = it.msg sid := by
    intro m hm
    simp only [msgs, List.mem_map] at hm
    obtain ⟨x, hx, rfl⟩ := hm
    have hx' := keepSel_sub hx
    have := (List.of_mem_zip hx').2
    simp only [List.mem_map] at this
    obtain ⟨it, hit, he⟩ := this
    exact ⟨it, hit, he.symm⟩
  unfold CliPart.drain
  have hstate : BufC.withBuf c (c.des.buf ++ wire kept) = { c with des := { core := c.des.core, buf := wire kept } } := by
    unfold BufC.withBuf; rw [hbuf]; rfl
  rw [hstate]
  have hst : ¬ (c.st ≠ .playRequested ∧ c.st ≠ .playing) := by
    rcases hs with h | h <;> simp [h]
  have := CliFold.msgLoop_plain c now evOfC (msgs kept) ((wire kept).length + c.des.buf.length + 2)
    c.des.core (wire kept) core' [] hrun
    (fun m hm => by obtain ⟨it, _, rfl⟩ := hmem m hm; show (if it.video then 9 else 8) ≠ 1; split <;> omega)
    (fun m hm d => by
      obtain ⟨it, _, rfl⟩ := hmem m hm
      cases hv : it.video with
      | true =>
        refine ⟨.video it.data, by simp [Item.msg, hv, fromPayload], ?_⟩
        simp [Cli.handleMessage, Cli.handleMedia, hst, ha, evOfC, Item.msg, hv]
      | false =>
        refine ⟨.audio it.data, by simp [Item.msg, hv, fromPayload], ?_⟩
        simp [Cli.handleMessage, Cli.handleMedia, hst, ha, evOfC, Item.msg, hv])
    (by
      have := CliPart.fuelOK_drain c (wire kept)
      rw [hstate] at this; exact this)
  simpa using this

end Rml.Interop
