/-
UTF-8 validity and concatenation: what `format!("… {}", s)` and dropping a final '/' preserve.
-/
import Rml.Model.Utf8
namespace Rml.Utf8

theorem valid_cons (b0 : UInt8) (rest : Bytes) :
    valid (b0 :: rest) =
      if b0 ≤ 0x7F then valid rest
      else if 0xC2 ≤ b0 && b0 ≤ 0xDF then
        match rest with
        | b1 :: r => cont b1 && valid r
        | _ => false
      else if 0xE0 ≤ b0 && b0 ≤ 0xEF then
        match rest with
        | b1 :: b2 :: r =>
          (if b0 == 0xE0 then 0xA0 ≤ b1 && b1 ≤ 0xBF
           else if b0 == 0xED then 0x80 ≤ b1 && b1 ≤ 0x9F
           else cont b1) && cont b2 && valid r
        | _ => false
      else if 0xF0 ≤ b0 && b0 ≤ 0xF4 then
        match rest with
        | b1 :: b2 :: b3 :: r =>
          (if b0 == 0xF0 then 0x90 ≤ b1 && b1 ≤ 0xBF
           else if b0 == 0xF4 then 0x80 ≤ b1 && b1 ≤ 0x8F
           else cont b1) && cont b2 && cont b3 && valid r
        | _ => false
      else false := by
  conv => lhs; rw [valid.eq_def]
  rfl

theorem valid_append_aux : ∀ (n : Nat) (a b : Bytes), a.length ≤ n → valid a = true → valid b = true → valid (a ++ b) = true
  | _, [], b, _, _, hb => by simpa using hb
  | 0, b0 :: rest, b, hl, ha, hb => by simp at hl
  | n + 1, b0 :: rest, b, hl, ha, hb => by
    have valid_append := fun (a b : Bytes) (h : a.length ≤ n) => valid_append_aux n a b h
    simp only [List.length_cons] at hl
    rw [List.cons_append, valid_cons]
    rw [valid_cons] at ha
    split
    · rename_i h0; rw [if_pos h0] at ha; exact valid_append rest b (by omega) ha hb
    · rename_i h0; rw [if_neg h0] at ha
      split
      · rename_i h1; rw [if_pos h1] at ha
        match rest, ha, hl with
        | b1 :: r, ha, hl =>
          simp only [Bool.and_eq_true] at ha
          simp only [List.cons_append, Bool.and_eq_true]
          simp only [List.length_cons] at hl
          exact ⟨ha.1, valid_append r b (by omega) ha.2 hb⟩
      · rename_i h1; rw [if_neg h1] at ha
        split
        · rename_i h2; rw [if_pos h2] at ha
          match rest, ha, hl with
          | b1 :: b2 :: r, ha, hl =>
            simp only [Bool.and_eq_true] at ha
            simp only [List.cons_append, Bool.and_eq_true]
            simp only [List.length_cons] at hl
            exact ⟨ha.1, valid_append r b (by omega) ha.2 hb⟩
        · rename_i h2; rw [if_neg h2] at ha
          split
          · rename_i h3; rw [if_pos h3] at ha
            match rest, ha, hl with
            | b1 :: b2 :: b3 :: r, ha, hl =>
              simp only [Bool.and_eq_true] at ha
              simp only [List.cons_append, Bool.and_eq_true]
              simp only [List.length_cons] at hl
              exact ⟨ha.1, valid_append r b (by omega) ha.2 hb⟩
          · rename_i h3; rw [if_neg h3] at ha; exact absurd ha (by simp)

theorem valid_append (a b : Bytes) (ha : valid a = true) (hb : valid b = true) : valid (a ++ b) = true :=
  valid_append_aux a.length a b (Nat.le_refl _) ha hb

theorem cont_47 : cont 47 = false := by decide

/-- dropping a final '/' keeps the string valid -/
theorem valid_dropSlash_aux : ∀ (n : Nat) (a : Bytes), a.length ≤ n → valid (a ++ [47]) = true → valid a = true
  | _, [], _, _ => rfl
  | 0, b0 :: rest, hl, h => by simp at hl
  | n + 1, b0 :: rest, hl, h => by
    have ih := fun (a : Bytes) (h : a.length ≤ n) => valid_dropSlash_aux n a h
    simp only [List.length_cons] at hl
    rw [List.cons_append, valid_cons] at h
    rw [valid_cons]
    split
    · rename_i h0; rw [if_pos h0] at h; exact ih rest (by omega) h
    · rename_i h0; rw [if_neg h0] at h
      split
      · rename_i h1; rw [if_pos h1] at h
        match rest, h, hl with
        | [], h, hl => simp [cont_47] at h
        | b1 :: r, h, hl =>
          simp only [List.cons_append, Bool.and_eq_true] at h
          simp only [Bool.and_eq_true]
          simp only [List.length_cons] at hl
          exact ⟨h.1, ih r (by omega) h.2⟩
      · rename_i h1; rw [if_neg h1] at h
        split
        · rename_i h2; rw [if_pos h2] at h
          match rest, h, hl with
          | [], h, hl => simp at h
          | [b1], h, hl => simp [cont_47] at h
          | b1 :: b2 :: r, h, hl =>
            simp only [List.cons_append, Bool.and_eq_true] at h
            simp only [Bool.and_eq_true]
            simp only [List.length_cons] at hl
            exact ⟨h.1, ih r (by omega) h.2⟩
        · rename_i h2; rw [if_neg h2] at h
          split
          · rename_i h3; rw [if_pos h3] at h
            match rest, h, hl with
            | [], h, hl => simp at h
            | [b1], h, hl => simp at h
            | [b1, b2], h, hl => simp [cont_47] at h
            | b1 :: b2 :: b3 :: r, h, hl =>
              simp only [List.cons_append, Bool.and_eq_true] at h
              simp only [Bool.and_eq_true]
              simp only [List.length_cons] at hl
              exact ⟨h.1, ih r (by omega) h.2⟩
          · rename_i h3; rw [if_neg h3] at h; exact absurd h (by simp)

theorem valid_dropSlash (a : Bytes) (h : valid (a ++ [47]) = true) : valid a = true :=
  valid_dropSlash_aux a.length a (Nat.le_refl _) h

end Rml.Utf8
