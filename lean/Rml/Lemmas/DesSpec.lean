/-
Thm B: on the stream of a sequential, strictly conformant sender (Spec.Chunk.decodeSeq) the
deserializer model yields exactly the messages the specification reader yields, with no error and
nothing left in its buffer.
-/
import Rml.Lemmas.DesChunk
import Rml.Spec.Chunk
namespace Rml.DesSpec
open Rml Rml.Bytes Rml.Chunk Rml.Des
open Rml.Spec.Chunk (CsState Announced)

def fmtN (f : Nat) : Fmt := if f = 0 then .f0 else if f = 1 then .f1 else if f = 2 then .f2 else .f3

theorem rd3_eq (b : Bytes) : Spec.Chunk.rd3 b = take3 b := by
  match b with
  | [] => rfl
  | [_] => rfl
  | [_, _] => rfl
  | _ :: _ :: _ :: _ => rfl
theorem rd4_eq (b : Bytes) : Spec.Chunk.rd4 b = take4be b := by
  match b with
  | [] => rfl
  | [_] => rfl
  | [_, _] => rfl
  | [_, _, _] => rfl
  | _ :: _ :: _ :: _ :: _ => rfl
theorem rd4le_eq (b : Bytes) : Spec.Chunk.rd4le b = take4le b := by
  match b with
  | [] => rfl
  | [_] => rfl
  | [_, _] => rfl
  | [_, _, _] => rfl
  | _ :: _ :: _ :: _ :: _ => rfl
theorem rd1_eq (b : Bytes) : Spec.Chunk.rd1 b = take1 b := by
  match b with
  | [] => rfl
  | _ :: _ => rfl

theorem basic_basicHdr {bs r : Bytes} {f k : Nat} (h : Spec.Chunk.basic bs = some (f, k, r)) :
    basicHdr bs = some (fmtN f, k, r) ∧ f ≤ 3 := by
  cases bs with
  | nil => simp [Spec.Chunk.basic] at h
  | cons x t =>
    have hx : x.toNat < 256 := x.toNat_lt
    unfold Spec.Chunk.basic at h
    unfold basicHdr
    by_cases h0 : x.toNat % 64 = 0
    · simp only [h0, if_true] at h ⊢
      cases t with
      | nil => simp at h
      | cons y t' =>
        simp only [Option.some.injEq, Prod.mk.injEq] at h ⊢
        obtain ⟨hf, hk, hr⟩ := h
        subst hf; subst hk; subst hr
        exact ⟨⟨rfl, rfl, rfl⟩, by omega⟩
    · by_cases h1 : x.toNat % 64 = 1
      · simp only [h1, if_true] at h ⊢
        cases t with
        | nil => simp at h
        | cons y t2 =>
          cases t2 with
          | nil => simp at h
          | cons z t' =>
            simp only [Nat.one_ne_zero, if_false, Option.some.injEq, Prod.mk.injEq] at h ⊢
            obtain ⟨hf, hk, hr⟩ := h
            subst hf; subst hk; subst hr
            exact ⟨⟨rfl, by omega, rfl⟩, by omega⟩
      · simp only [h0, h1, if_false, Option.some.injEq, Prod.mk.injEq] at h ⊢
        obtain ⟨hf, hk, hr⟩ := h
        subst hf; subst hk; subst hr
        exact ⟨⟨rfl, rfl, rfl⟩, by omega⟩

def toHdr (k : Nat) (st : CsState) : Hdr :=
  { csid := k, ts := st.ts, field := st.field24, len := st.len, typ := st.typ, msid := st.msid }

/-- the chunk size a completed message leaves in force (specification side) -/
def newCs (cs : Nat) (m : Msg) : Nat :=
  if m.typ = 1 then
    match parseSetChunkSize m.data with
    | some v => if v ≥ 1 then v else cs
    | none => cs
  else cs

/-- chunk size in force after a chunk that produced `m` -/
def csAfter (cs : Nat) : Option Msg → Nat
  | some msg => newCs cs msg
  | none => cs

theorem take3_lt {b r : Bytes} {v : Nat} (h : take3 b = some (v, r)) : v ≤ 16777215 := by
  match b, h with
  | x0 :: x1 :: x2 :: r', h =>
    simp only [take3, Option.some.injEq, Prod.mk.injEq] at h
    have h0 := x0.toNat_lt; have h1 := x1.toNat_lt; have h2 := x2.toNat_lt
    rw [← h.1]; unfold rd24; omega

theorem add32_ext (a e : Nat) : add32 (add32 a 16777215) (sub32 e 16777215) = add32 a e := by
  unfold add32 sub32; simp only [M32]; omega

end Rml.DesSpec

namespace Rml.DesSpec
open Rml Rml.Bytes Rml.Chunk Rml.Des
open Rml.Spec.Chunk (CsState Announced)

/-- stages its … ext on a complete header -/
def hdrChain (c : Core) (fmt : Fmt) (cur0 : Hdr) (b1 : Bytes) : Option (Hdr × Bytes) :=
  match afterIts c fmt cur0 b1 with
  | none => none
  | some (cur1, b2) =>
    match afterLen fmt cur1 b2 with
    | none => none
    | some (cur2, b3) =>
      match afterTyp fmt cur2 b3 with
      | none => none
      | some (cur3, b4) =>
        match afterMsid fmt cur3 b4 with
        | none => none
        | some (cur4, b5) => afterExt c fmt cur4 b5

theorem desChunk_of {c : Core} {bs b1 b6 : Bytes} {fmt : Fmt} {k : Nat} {cur0 cur5 : Hdr} {prev0 : List (Nat × Hdr)}
    (hb : basicHdr bs = some (fmt, k, b1)) (h0 : afterCsid c fmt k = some (cur0, prev0))
    (hh : hdrChain c fmt cur0 b1 = some (cur5, b6)) :
    desChunk c bs = afterPayload c fmt cur5 prev0 b6 := by
  unfold desChunk
  simp only [hb, h0]
  unfold hdrChain at hh
  cases h1 : afterIts c fmt cur0 b1 with
  | none => simp [h1] at hh
  | some p1 =>
    obtain ⟨cur1, b2⟩ := p1
    simp only [h1] at hh ⊢
    cases h2 : afterLen fmt cur1 b2 with
    | none => simp [h2] at hh
    | some p2 =>
      obtain ⟨cur2, b3⟩ := p2
      simp only [h2] at hh ⊢
      cases h3 : afterTyp fmt cur2 b3 with
      | none => simp [h3] at hh
      | some p3 =>
        obtain ⟨cur3, b4⟩ := p3
        simp only [h3] at hh ⊢
        cases h4 : afterMsid fmt cur3 b4 with
        | none => simp [h4] at hh
        | some p4 =>
          obtain ⟨cur4, b5⟩ := p4
          simp only [h4] at hh ⊢
          simp only [hh]

theorem hdr0 (c : Core) (st : CsState) (cur0 : Hdr) (b1 b6 : Bytes) (a : Announced)
    (h : Spec.Chunk.readHeader 0 st b1 = some (a, b6)) :
    hdrChain c .f0 cur0 b1 = some ({ csid := cur0.csid, ts := a.ext.getD a.field24, field := a.field24, len := a.len,
                                     typ := a.typ, msid := a.msid }, b6)
    ∧ a.field24 ≤ 16777215 ∧ (a.field24 < 16777215 → a.ext = none) := by
  simp only [Spec.Chunk.readHeader, Nat.zero_le, if_true, rd3_eq, rd4_eq, rd4le_eq, rd1_eq, bind, Option.bind_eq_some_iff,
    Prod.exists, pure] at h
  obtain ⟨f24, b2, h1, ln, b3, h2, ty, b4, h3, ms, b5, h4, h5⟩ := h
  have hle := take3_lt h1
  unfold hdrChain afterIts afterLen afterTyp afterMsid afterExt
  by_cases hF : f24 = 16777215
  · simp only [hF, if_true] at h5
    cases h6 : take4be b5 with
    | none => simp [h6] at h5
    | some q =>
      obtain ⟨e, r⟩ := q
      simp only [h6, Option.map_some, Option.bind_some, Option.some.injEq, Prod.mk.injEq] at h5
      obtain ⟨ha, hr⟩ := h5
      subst ha; subst hr
      simp [h1, h2, h3, h4, h6, hF, maxTs24]
  · simp only [hF, if_false, Option.bind_some, Option.some.injEq, Prod.mk.injEq] at h5
    obtain ⟨ha, hr⟩ := h5
    subst ha; subst hr
    have : f24 < 16777215 := by omega
    simp [h1, h2, h3, h4, this, maxTs24]
    omega

end Rml.DesSpec

namespace Rml.DesSpec
open Rml Rml.Bytes Rml.Chunk Rml.Des
open Rml.Spec.Chunk (CsState Announced)

theorem hdr1 (c : Core) (st : CsState) (cur0 : Hdr) (b1 b6 : Bytes) (a : Announced) (hp : c.pdata = [])
    (hm : cur0.msid = st.msid)
    (h : Spec.Chunk.readHeader 1 st b1 = some (a, b6)) :
    hdrChain c .f1 cur0 b1 = some ({ csid := cur0.csid, ts := add32 cur0.ts (a.ext.getD a.field24), field := a.field24,
                                     len := a.len, typ := a.typ, msid := a.msid }, b6)
    ∧ a.field24 ≤ 16777215 ∧ (a.field24 < 16777215 → a.ext = none) := by
  simp only [Spec.Chunk.readHeader, show (1 ≤ 2) by omega, Nat.le_refl, Nat.one_ne_zero, if_true, if_false, rd3_eq, rd4_eq, rd4le_eq, rd1_eq, bind, Option.bind_eq_some_iff,
    Prod.exists, pure, Option.some.injEq, Prod.mk.injEq] at h
  obtain ⟨f24, b2, h1, ln, b3, h2, ty, b4, h3, ms, b5, ⟨hms, hb5⟩, h5⟩ := h
  subst hms; subst hb5
  have hle := take3_lt h1
  unfold hdrChain afterIts afterLen afterTyp afterMsid afterExt
  by_cases hF : f24 = 16777215
  · simp only [hF, if_true] at h5
    cases h6 : take4be b4 with
    | none => simp [h6] at h5
    | some q =>
      obtain ⟨e, r⟩ := q
      simp only [h6, Option.map_some, Option.bind_some, Option.some.injEq, Prod.mk.injEq] at h5
      obtain ⟨ha, hr⟩ := h5
      subst ha; subst hr
      simp [h1, h2, h3, h6, hF, maxTs24, hp, add32_ext, hm]
  · simp only [hF, if_false, Option.bind_some, Option.some.injEq, Prod.mk.injEq] at h5
    obtain ⟨ha, hr⟩ := h5
    subst ha; subst hr
    have : f24 < 16777215 := by omega
    simp [h1, h2, h3, this, maxTs24, hm]
    omega

theorem hdr2 (c : Core) (st : CsState) (cur0 : Hdr) (b1 b6 : Bytes) (a : Announced) (hp : c.pdata = [])
    (hm : cur0.msid = st.msid) (hl : cur0.len = st.len) (ht : cur0.typ = st.typ)
    (h : Spec.Chunk.readHeader 2 st b1 = some (a, b6)) :
    hdrChain c .f2 cur0 b1 = some ({ csid := cur0.csid, ts := add32 cur0.ts (a.ext.getD a.field24), field := a.field24,
                                     len := a.len, typ := a.typ, msid := a.msid }, b6)
    ∧ a.field24 ≤ 16777215 ∧ (a.field24 < 16777215 → a.ext = none) := by
  simp only [Spec.Chunk.readHeader, Nat.le_refl, if_true, if_false, rd3_eq, rd4_eq, rd4le_eq, rd1_eq, bind, Option.bind_eq_some_iff,
    Prod.exists, pure, Option.some.injEq, Prod.mk.injEq, show ¬ (2 ≤ 1) by omega, show ¬ (2 = 0) by omega] at h
  obtain ⟨f24, b2, h1, ln, b3, ⟨hln, hb3⟩, ty, b4, ⟨hty, hb4⟩, ms, b5, ⟨hms, hb5⟩, h5⟩ := h
  subst hms; subst hb5; subst hty; subst hb4; subst hln; subst hb3
  have hle := take3_lt h1
  unfold hdrChain afterIts afterLen afterTyp afterMsid afterExt
  by_cases hF : f24 = 16777215
  · simp only [hF, if_true] at h5
    cases h6 : take4be b2 with
    | none => simp [h6] at h5
    | some q =>
      obtain ⟨e, r⟩ := q
      simp only [h6, Option.map_some, Option.bind_some, Option.some.injEq, Prod.mk.injEq] at h5
      obtain ⟨ha, hr⟩ := h5
      subst ha; subst hr
      simp [h1, h6, hF, maxTs24, hp, add32_ext, hm, hl, ht]
  · simp only [hF, if_false, Option.bind_some, Option.some.injEq, Prod.mk.injEq] at h5
    obtain ⟨ha, hr⟩ := h5
    subst ha; subst hr
    have : f24 < 16777215 := by omega
    simp [h1, this, maxTs24, hm, hl, ht]
    omega

/-- type 3: nothing but (possibly) the extended field is read -/
theorem hdr3 (c : Core) (st : CsState) (cur0 : Hdr) (b1 b6 : Bytes) (a : Announced)
    (hf : cur0.field = st.field24) (hle : st.field24 ≤ 16777215)
    (h : Spec.Chunk.readHeader 3 st b1 = some (a, b6)) :
    hdrChain c .f3 cur0 b1 =
      some ({ cur0 with ts := if c.pdata.isEmpty then
                                 (match a.ext with
                                  | some e => add32 cur0.ts e
                                  | none => add32 cur0.ts cur0.field)
                               else cur0.ts }, b6)
    ∧ a.field24 = st.field24 ∧ a.len = st.len ∧ a.typ = st.typ ∧ a.msid = st.msid
    ∧ (st.field24 < 16777215 → a.ext = none)
    ∧ (st.field24 = 16777215 → ∃ e r, Spec.Chunk.rd4 b1 = some (e, r) ∧ a.ext = some e) := by
  simp only [Spec.Chunk.readHeader, if_true, if_false, rd3_eq, rd4_eq, rd4le_eq, rd1_eq, bind, Option.bind_eq_some_iff,
    Prod.exists, pure, Option.some.injEq, Prod.mk.injEq, show ¬ (3 ≤ 1) by omega, show ¬ (3 ≤ 2) by omega, show ¬ (3 = 0) by omega] at h
  obtain ⟨f24, b2, ⟨hf24, hb2⟩, ln, b3, ⟨hln, hb3⟩, ty, b4, ⟨hty, hb4⟩, ms, b5, ⟨hms, hb5⟩, h5⟩ := h
  subst hms; subst hb5; subst hty; subst hb4; subst hln; subst hb3; subst hf24; subst hb2
  unfold hdrChain afterIts afterLen afterTyp afterMsid afterExt
  by_cases hF : st.field24 = 16777215
  · simp only [hF, if_true] at h5
    have hcf : cur0.field = 16777215 := by omega
    cases h6 : take4be b1 with
    | none => simp [h6] at h5
    | some q =>
      obtain ⟨e, r⟩ := q
      simp only [h6, Option.map_some, Option.bind_some, Option.some.injEq, Prod.mk.injEq] at h5
      obtain ⟨ha, hr⟩ := h5
      subst ha; subst hr
      refine ⟨?_, hF.symm, rfl, rfl, rfl, by omega, fun _ => ⟨e, r, by rw [rd4_eq]; exact h6, rfl⟩⟩
      by_cases hp : c.pdata.isEmpty = true
      · simp [h6, maxTs24, hp, hcf, add32_ext]
      · simp [h6, maxTs24, hp, hcf]
  · simp only [hF, if_false, Option.bind_some, Option.some.injEq, Prod.mk.injEq] at h5
    obtain ⟨ha, hr⟩ := h5
    subst ha; subst hr
    have hlt : cur0.field < 16777215 := by omega
    refine ⟨?_, rfl, rfl, rfl, rfl, fun _ => rfl, fun h => absurd h hF⟩
    by_cases hp : c.pdata.isEmpty = true
    · simp [hlt, maxTs24, hp]
    · simp [hlt, maxTs24, hp]

end Rml.DesSpec

namespace Rml.DesSpec
open Rml Rml.Bytes Rml.Chunk Rml.Des
open Rml.Spec.Chunk (CsState Announced)

theorem payload_sim (s s' : Spec.Chunk.State) (k : Nat) (st : CsState) (a : Announced) (ts delta : Nat) (b6 rest : Bytes)
    (m : Option Msg) (c : Core) (fmt : Fmt) (cur5 : Hdr) (prev0 : List (Nat × Hdr))
    (hcs : c.maxCs = s.cs) (hpos : 1 ≤ s.cs) (hpd : c.pdata = st.buf) (hbig : st.buf ≠ [] → s.cs < a.len)
    (hlen : cur5.len = a.len) (hts : cur5.ts = ts) (htyp : cur5.typ = a.typ) (hmsid : cur5.msid = a.msid)
    (hk : cur5.csid = k)
    (h : Spec.Chunk.payload s k st a ts delta b6 = some (s', m, rest)) :
    let buf' := st.buf ++ b6.take (min s.cs (a.len - st.buf.length))
    afterPayload c fmt cur5 prev0 b6 =
        some ({ c with fmt := fmt, pdata := (if m.isSome then [] else buf'), cur := {},
                       prev := mapInsert k cur5 prev0, stage := .csid }, rest, m)
    ∧ s'.streams = mapInsert k { ts := ts, delta := delta, field24 := a.field24, len := a.len, typ := a.typ, msid := a.msid,
                                 buf := (if m.isSome then [] else buf'), inFlight := !m.isSome } s.streams
    ∧ s'.cs = csAfter s.cs m
    ∧ (m = none → buf' ≠ [] ∧ buf'.length < a.len ∧ s.cs < a.len) := by
  intro buf'
  unfold Spec.Chunk.payload at h
  by_cases hl : a.len < st.buf.length
  · simp [hl] at h
  · simp only [hl, if_false] at h
    by_cases hw : b6.length < min s.cs (a.len - st.buf.length)
    · simp [hw] at h
    · simp only [hw, if_false] at h
      have hn : (if cur5.len > c.maxCs then min (cur5.len - c.pdata.length) c.maxCs else cur5.len)
                  = min s.cs (a.len - st.buf.length) := by
        rw [hlen, hcs, hpd]
        by_cases hgt : a.len > s.cs
        · simp only [hgt, if_true]; omega
        · simp only [hgt, if_false]
          have : st.buf = [] := by
            by_cases he : st.buf = []
            · exact he
            · exact absurd (hbig he) (by omega)
          simp [this]; omega
      have htl : (b6.take (min s.cs (a.len - st.buf.length))).length = min s.cs (a.len - st.buf.length) := by
        rw [List.length_take]; omega
      have hbl : buf'.length = st.buf.length + min s.cs (a.len - st.buf.length) := by
        show (st.buf ++ b6.take (min s.cs (a.len - st.buf.length))).length = _
        rw [List.length_append, htl]
      unfold afterPayload
      rw [hn, hlen, hpd]
      simp only [hl, hw, if_false]
      by_cases hc : (st.buf ++ b6.take (min s.cs (a.len - st.buf.length))).length = a.len
      · simp only [hc, if_true, Option.some.injEq, Prod.mk.injEq] at h ⊢
        obtain ⟨hs', hm, hr⟩ := h
        subst hs'; subst hm; subst hr
        refine ⟨⟨?_, rfl, ?_⟩, ?_, ?_, ?_⟩
        · simp [hk]
        · simp [hts, htyp, hmsid]
        · simp
        · rfl
        · intro hh; simp at hh
      · simp only [hc, if_false, Option.some.injEq, Prod.mk.injEq] at h ⊢
        obtain ⟨hs', hm, hr⟩ := h
        subst hs'; subst hm; subst hr
        refine ⟨⟨?_, rfl, rfl⟩, ?_, rfl, ?_⟩
        · simp [hk]; rfl
        · rfl
        · intro _
          have hne : buf'.length ≠ a.len := hc
          have h1 : 1 ≤ buf'.length := by omega
          refine ⟨?_, by omega, ?_⟩
          · intro he; rw [he] at h1; simp at h1
          · by_cases he : st.buf = []
            · rw [he] at hbl; simp at hbl; omega
            · exact hbig he

end Rml.DesSpec

namespace Rml.DesSpec
open Rml Rml.Bytes Rml.Chunk Rml.Des
open Rml.Spec.Chunk (CsState Announced)

/-- what one chunk does to both sides (everything after the basic header) -/
def Post (s s' : Spec.Chunk.State) (c : Core) (k : Nat) (fmt : Fmt) (b1 rest : Bytes) (m : Option Msg) : Prop :=
  ∃ (st' : CsState) (prev0 : List (Nat × Hdr)),
    (prev0 = c.prev ∨ prev0 = mapRemove k c.prev) ∧
    (∀ bs, basicHdr bs = some (fmt, k, b1) →
        desChunk c bs = some ({ c with fmt := fmt, pdata := st'.buf, cur := {},
                                       prev := mapInsert k (toHdr k st') prev0, stage := .csid }, rest, m)) ∧
    s'.streams = mapInsert k st' s.streams ∧
    s'.cs = csAfter s.cs m ∧
    st'.field24 ≤ 16777215 ∧ (st'.field24 < 16777215 → st'.delta = st'.field24) ∧
    st'.inFlight = !m.isSome ∧ (m.isSome = true → st'.buf = []) ∧
    (m = none → st'.buf ≠ [] ∧ st'.buf.length < st'.len ∧ s.cs < st'.len)

theorem finish {s s' : Spec.Chunk.State} {c : Core} {k : Nat} {fmt : Fmt} {b1 b6 rest : Bytes} {m : Option Msg}
    {cur0 cur5 : Hdr} {prev0 : List (Nat × Hdr)} {st : CsState} {a : Announced} {ts delta : Nat}
    (h0 : afterCsid c fmt k = some (cur0, prev0)) (hp0 : prev0 = c.prev ∨ prev0 = mapRemove k c.prev)
    (hh : hdrChain c fmt cur0 b1 = some (cur5, b6))
    (hc5 : cur5 = { csid := k, ts := ts, field := a.field24, len := a.len, typ := a.typ, msid := a.msid })
    (hF : a.field24 ≤ 16777215) (hD : a.field24 < 16777215 → delta = a.field24)
    (hcs : c.maxCs = s.cs) (hpos : 1 ≤ s.cs) (hpd : c.pdata = st.buf) (hbig : st.buf ≠ [] → s.cs < a.len)
    (h : Spec.Chunk.payload s k st a ts delta b6 = some (s', m, rest)) :
    Post s s' c k fmt b1 rest m := by
  have hps := payload_sim s s' k st a ts delta b6 rest m c fmt cur5 prev0 hcs hpos hpd hbig
    (by rw [hc5]) (by rw [hc5]) (by rw [hc5]) (by rw [hc5]) (by rw [hc5]) h
  obtain ⟨hap, hstr, hcs', hnone⟩ := hps
  refine ⟨{ ts := ts, delta := delta, field24 := a.field24, len := a.len, typ := a.typ, msid := a.msid,
            buf := (if m.isSome then [] else st.buf ++ b6.take (min s.cs (a.len - st.buf.length))),
            inFlight := !m.isSome }, prev0, hp0, ?_, hstr, hcs', hF, hD, rfl, ?_, ?_⟩
  · intro bs hb
    rw [desChunk_of hb h0 hh, hap, hc5]
    rfl
  · intro hm; simp [hm]
  · intro hm
    have := hnone hm
    subst hm
    simpa using this

end Rml.DesSpec

namespace Rml.DesSpec
open Rml Rml.Bytes Rml.Chunk Rml.Des
open Rml.Spec.Chunk (CsState Announced)

theorem body_sim {s s' : Spec.Chunk.State} {c : Core} {k f : Nat} {b1 rest : Bytes} {m : Option Msg} (st : CsState)
    (hf3 : f ≤ 3) (hcs : c.maxCs = s.cs) (hpos : 1 ≤ s.cs)
    (hst : (mapGet k s.streams).getD {} = st)
    (hF : st.field24 ≤ 16777215) (hD : st.field24 < 16777215 → st.delta = st.field24)
    (hprev : f ≠ 0 → mapGet k c.prev = some (toHdr k st))
    (hpd : c.pdata = st.buf) (hfl : st.inFlight = true → st.buf ≠ [] ∧ s.cs < st.len)
    (hnf : st.inFlight = false → st.buf = [])
    (hstrict : f = 3 → st.inFlight = false → st.field24 = 16777215 →
                 ∃ e r, Spec.Chunk.rd4 b1 = some (e, r) ∧ e = st.delta)
    (h : Spec.Chunk.body s f k b1 = some (s', m, rest)) :
    Post s s' c k (fmtN f) b1 rest m := by
  unfold Spec.Chunk.body at h
  rw [hst] at h
  by_cases hno : f ≠ 0 ∧ (mapGet k s.streams).isNone = true
  · simp [hno] at h
  · simp only [hno, if_false] at h
    cases hh : Spec.Chunk.readHeader f st b1 with
    | none => simp [hh] at h
    | some p =>
      obtain ⟨a, b6⟩ := p
      simp only [hh] at h
      cases htd : Spec.Chunk.tsDelta f st a with
      | none => simp [htd] at h
      | some q =>
        obtain ⟨ts, delta⟩ := q
        simp only [htd] at h
        have hbuf : st.buf ≠ [] → st.inFlight = true := by
          intro hne
          cases hi : st.inFlight with
          | true => rfl
          | false => exact absurd (hnf hi) hne
        rcases (by omega : f = 0 ∨ f = 1 ∨ f = 2 ∨ f = 3) with rfl | rfl | rfl | rfl
        · -- full header
          obtain ⟨hch, hle, hext⟩ := hdr0 c st { csid := k } b1 b6 a hh
          have h0 : afterCsid c (fmtN 0) k = some ({ csid := k }, c.prev) := by simp [afterCsid, fmtN]
          have htsd : ts = a.ext.getD a.field24 ∧ delta = a.ext.getD a.field24 ∧ (st.inFlight = true → a.len = st.len) := by
            unfold Spec.Chunk.tsDelta at htd
            by_cases hi : st.inFlight = true
            · simp only [hi, if_true, show ¬ (0 = 3) by omega, if_false] at htd
              split at htd
              next hc =>
                simp only [Option.some.injEq, Prod.mk.injEq] at htd
                exact ⟨by rw [← htd.1]; exact hc.2.1.symm, htd.2.symm, fun _ => hc.2.2.1⟩
              next hc => simp at htd
            · have hi' : st.inFlight = false := by simpa using hi
              simp only [hi', Bool.false_eq_true, if_false, if_true, Option.some.injEq, Prod.mk.injEq] at htd
              exact ⟨htd.1.symm, htd.2.symm, fun h => absurd h hi⟩
          obtain ⟨hts, hdl, hlen⟩ := htsd
          refine finish h0 (Or.inl rfl) hch (by rw [hts]) hle ?_ hcs hpos hpd ?_ h
          · intro hlt; rw [hdl, hext hlt]; rfl
          · intro hne
            have hi := hbuf hne
            rw [hlen hi]; exact (hfl hi).2
        · -- type 1: only when no message is in flight on this chunk stream
          have hi : st.inFlight = false := by
            by_cases hi : st.inFlight = true
            · unfold Spec.Chunk.tsDelta at htd; simp [hi] at htd
            · simpa using hi
          have hp : c.pdata = [] := by rw [hpd]; exact hnf hi
          obtain ⟨hch, hle, hext⟩ := hdr1 c st (toHdr k st) b1 b6 a hp rfl hh
          have h0 : afterCsid c (fmtN 1) k = some (toHdr k st, mapRemove k c.prev) := by
            simp [afterCsid, fmtN, hprev (by omega)]
          have htsd : ts = add32 st.ts (a.ext.getD a.field24) ∧ delta = a.ext.getD a.field24 := by
            unfold Spec.Chunk.tsDelta at htd
            simp only [hi, Bool.false_eq_true, if_false, show ¬ (1 = 0) by omega, show ¬ (1 = 3) by omega,
              Option.some.injEq, Prod.mk.injEq] at htd
            exact ⟨htd.1.symm, htd.2.symm⟩
          refine finish h0 (Or.inr rfl) hch (by rw [htsd.1]; rfl) hle ?_ hcs hpos hpd ?_ h
          · intro hlt; rw [htsd.2, hext hlt]; rfl
          · intro hne; rw [hnf hi] at hne; exact absurd rfl hne
        · -- type 2
          have hi : st.inFlight = false := by
            by_cases hi : st.inFlight = true
            · unfold Spec.Chunk.tsDelta at htd; simp [hi] at htd
            · simpa using hi
          have hp : c.pdata = [] := by rw [hpd]; exact hnf hi
          obtain ⟨hch, hle, hext⟩ := hdr2 c st (toHdr k st) b1 b6 a hp rfl rfl rfl hh
          have h0 : afterCsid c (fmtN 2) k = some (toHdr k st, mapRemove k c.prev) := by
            simp [afterCsid, fmtN, hprev (by omega)]
          have htsd : ts = add32 st.ts (a.ext.getD a.field24) ∧ delta = a.ext.getD a.field24 := by
            unfold Spec.Chunk.tsDelta at htd
            simp only [hi, Bool.false_eq_true, if_false, show ¬ (2 = 0) by omega, show ¬ (2 = 3) by omega,
              Option.some.injEq, Prod.mk.injEq] at htd
            exact ⟨htd.1.symm, htd.2.symm⟩
          refine finish h0 (Or.inr rfl) hch (by rw [htsd.1]; rfl) hle ?_ hcs hpos hpd ?_ h
          · intro hlt; rw [htsd.2, hext hlt]; rfl
          · intro hne; rw [hnf hi] at hne; exact absurd rfl hne
        · -- type 3
          obtain ⟨hch, ha1, ha2, ha3, ha4, hextn, hexts⟩ := hdr3 c st (toHdr k st) b1 b6 a rfl hF hh
          have h0 : afterCsid c (fmtN 3) k = some (toHdr k st, mapRemove k c.prev) := by
            simp [afterCsid, fmtN, hprev (by omega)]
          by_cases hi : st.inFlight = true
          · have hne : c.pdata.isEmpty = false := by
              rw [hpd]; cases hb : st.buf with
              | nil => exact absurd hb (hfl hi).1
              | cons _ _ => rfl
            have htsd : ts = st.ts ∧ delta = st.delta := by
              unfold Spec.Chunk.tsDelta at htd
              simp only [hi, if_true, Option.some.injEq, Prod.mk.injEq] at htd
              exact ⟨htd.1.symm, htd.2.symm⟩
            rw [hne] at hch
            refine finish h0 (Or.inr rfl) hch ?_ (by rw [ha1]; exact hF) ?_ hcs hpos hpd ?_ h
            · rw [htsd.1, ha1, ha2, ha3, ha4]; rfl
            · rw [ha1, htsd.2]; exact hD
            · intro _; rw [ha2]; exact (hfl hi).2
          · have hi : st.inFlight = false := by simpa using hi
            have hp : c.pdata.isEmpty = true := by rw [hpd, hnf hi]; rfl
            have htsd : ts = add32 st.ts st.delta ∧ delta = st.delta := by
              unfold Spec.Chunk.tsDelta at htd
              simp only [hi, Bool.false_eq_true, if_false, show ¬ (3 = 0) by omega, if_true,
                Option.some.injEq, Prod.mk.injEq] at htd
              exact ⟨htd.1.symm, htd.2.symm⟩
            rw [hp] at hch
            refine finish h0 (Or.inr rfl) hch ?_ (by rw [ha1]; exact hF) ?_ hcs hpos hpd ?_ h
            · rw [htsd.1, ha1, ha2, ha3, ha4]
              by_cases hlt : st.field24 < 16777215
              · rw [hextn hlt, hD hlt]; rfl
              · have heq : st.field24 = 16777215 := by omega
                obtain ⟨e, r, hr, hae⟩ := hexts heq
                obtain ⟨e', r', hr', he'⟩ := hstrict rfl hi heq
                rw [hr] at hr'
                simp only [Option.some.injEq, Prod.mk.injEq] at hr'
                rw [hae, ← he', ← hr'.1]; rfl
            · rw [ha1, htsd.2]; exact hD
            · intro hne; rw [hnf hi] at hne; exact absurd rfl hne

end Rml.DesSpec

namespace Rml.DesSpec
open Rml Rml.Bytes Rml.Chunk Rml.Des
open Rml.Spec.Chunk (CsState Announced)

/-- the simulation relation between the specification reader (state `s`, chunk stream `cur` with a
    message in flight) and the deserializer between two chunks -/
structure Rel (s : Spec.Chunk.State) (cur : Option Nat) (c : Core) : Prop where
  stage : c.stage = .csid
  cs : c.maxCs = s.cs
  pos : 1 ≤ s.cs
  prev : ∀ k, mapGet k c.prev = (mapGet k s.streams).map (toHdr k)
  wf : ∀ k st, mapGet k s.streams = some st →
        st.field24 ≤ 16777215 ∧ (st.field24 < 16777215 → st.delta = st.field24) ∧
        (st.inFlight = true ↔ cur = some k) ∧ (st.inFlight = false → st.buf = [])
  flight : ∀ k, cur = some k → ∃ st, mapGet k s.streams = some st ∧ c.pdata = st.buf ∧ st.buf ≠ [] ∧ s.cs < st.len
  idle : cur = none → c.pdata = []

theorem rel_init : Rel {} none {} := by
  refine ⟨rfl, rfl, by decide, ?_, ?_, ?_, ?_⟩
  · intro k; rfl
  · intro k st h; simp [mapGet] at h
  · intro k h; simp at h
  · intro _; rfl

theorem chunk_sim {s s' : Spec.Chunk.State} {cur : Option Nat} {c : Core} {bs rest : Bytes} {m : Option Msg}
    (hR : Rel s cur c) (hst : Spec.Chunk.strictOk s cur bs = true)
    (h : Spec.Chunk.chunk s bs = some (s', m, rest)) :
    ∃ c', desChunk c bs = some (c', rest, m) ∧
          Rel { s' with cs := s.cs } (Spec.Chunk.nextCur (Spec.Chunk.csidOf bs) m) c' ∧
          s'.cs = csAfter s.cs m := by
  unfold Spec.Chunk.chunk at h
  cases hb : Spec.Chunk.basic bs with
  | none => simp [hb] at h
  | some p =>
    obtain ⟨f, k, b1⟩ := p
    simp only [hb] at h
    by_cases hk2 : k < 2
    · simp [hk2] at h
    · simp only [hk2, if_false] at h
      obtain ⟨hbh, hf3⟩ := basic_basicHdr hb
      have hcsid : Spec.Chunk.csidOf bs = k := by simp [Spec.Chunk.csidOf, hb]
      -- what strictness says
      unfold Spec.Chunk.strictOk at hst
      simp only [hb, Bool.and_eq_true] at hst
      obtain ⟨hst1, hst2⟩ := hst
      have hseq : ∀ j, cur = some j → j = k := by
        intro j hj; rw [hj] at hst1; have : k = j := by simpa using hst1
        exact this.symm
      -- the stream's state on the specification side
      generalize hstd : (mapGet k s.streams).getD {} = st at *
      have hfacts : st.field24 ≤ 16777215 ∧ (st.field24 < 16777215 → st.delta = st.field24) ∧
          (st.inFlight = true ↔ cur = some k) ∧ (st.inFlight = false → st.buf = []) := by
        cases hg : mapGet k s.streams with
        | some st0 =>
          rw [hg] at hstd; simp only [Option.getD_some] at hstd; subst hstd
          exact hR.wf k st0 hg
        | none =>
          rw [hg] at hstd; simp only [Option.getD_none] at hstd; subst hstd
          refine ⟨by decide, fun _ => rfl, ⟨fun h => by simp at h, fun hc => ?_⟩, fun _ => rfl⟩
          obtain ⟨st1, h1, _⟩ := hR.flight k hc
          rw [hg] at h1; simp at h1
      obtain ⟨hF, hD, hIF, hNF⟩ := hfacts
      have hget : ∀ st0, mapGet k s.streams = some st0 → st0 = st := by
        intro st0 hg; rw [hg] at hstd; simpa using hstd
      have hpd : c.pdata = st.buf := by
        by_cases hi : st.inFlight = true
        · obtain ⟨st1, h1, h2, _⟩ := hR.flight k (hIF.mp hi)
          rw [h2, hget st1 h1]
        · have hi' : st.inFlight = false := by simpa using hi
          rw [hNF hi']
          cases hc : cur with
          | none => exact hR.idle hc
          | some j =>
            have := hseq j hc
            subst this
            exact absurd (hIF.mpr hc) hi
      have hfl : st.inFlight = true → st.buf ≠ [] ∧ s.cs < st.len := by
        intro hi
        obtain ⟨st1, h1, _, h3, h4⟩ := hR.flight k (hIF.mp hi)
        rw [hget st1 h1] at h3 h4
        exact ⟨h3, h4⟩
      have hprev : f ≠ 0 → mapGet k c.prev = some (toHdr k st) := by
        intro hf0
        rw [hR.prev k]
        cases hg : mapGet k s.streams with
        | some st0 => rw [hget st0 hg]; rfl
        | none =>
          exfalso
          unfold Spec.Chunk.body at h
          simp [hf0, hg] at h
      have hstrict : f = 3 → st.inFlight = false → st.field24 = 16777215 →
          ∃ e r, Spec.Chunk.rd4 b1 = some (e, r) ∧ e = st.delta := by
        intro h3 hi hf
        cases hg : mapGet k s.streams with
        | none =>
          rw [hg] at hstd; simp only [Option.getD_none] at hstd; subst hstd
          simp at hf
        | some st0 =>
          have := hget st0 hg; subst this
          simp only [hg, h3, hi, hf, and_self, if_true] at hst2
          cases hr : Spec.Chunk.rd4 b1 with
          | none => simp [hr] at hst2
          | some q =>
            obtain ⟨e, r⟩ := q
            simp only [hr, decide_eq_true_eq] at hst2
            exact ⟨e, r, rfl, hst2⟩
      obtain ⟨st', prev0, hp0, hdes, hstr, hcs', hF', hD', hIF', hB', hN'⟩ :=
        body_sim st hf3 hR.cs hR.pos hstd hF hD hprev hpd hfl hNF hstrict h
      refine ⟨_, hdes bs hbh, ?_, hcs'⟩
      rw [hcsid]
      refine ⟨rfl, hR.cs, hR.pos, ?_, ?_, ?_, ?_⟩
      · -- previous headers
        intro j
        show mapGet j (mapInsert k (toHdr k st') prev0) = (mapGet j s'.streams).map (toHdr j)
        rw [hstr]
        by_cases hj : j = k
        · subst hj; rw [mapGet_mapInsert_self, mapGet_mapInsert_self]; rfl
        · rw [mapGet_mapInsert_ne k j hj, mapGet_mapInsert_ne k j hj]
          rcases hp0 with rfl | rfl
          · exact hR.prev j
          · rw [mapGet_mapRemove_ne k j hj]; exact hR.prev j
      · -- per-stream facts
        intro j stj hgj
        have hgj' : mapGet j (mapInsert k st' s.streams) = some stj := by rw [← hstr]; exact hgj
        by_cases hj : j = k
        · subst hj
          rw [mapGet_mapInsert_self] at hgj'
          simp only [Option.some.injEq] at hgj'
          subst hgj'
          refine ⟨hF', hD', ?_, ?_⟩
          · rw [hIF']
            cases m with
            | none => simp [Spec.Chunk.nextCur]
            | some msg => simp [Spec.Chunk.nextCur]
          · intro hi
            rw [hIF'] at hi
            cases m with
            | none => simp at hi
            | some msg => exact hB' rfl
        · rw [mapGet_mapInsert_ne k j hj] at hgj'
          obtain ⟨a1, a2, a3, a4⟩ := hR.wf j stj hgj'
          have hnot : stj.inFlight = false := by
            cases hi : stj.inFlight with
            | false => rfl
            | true => exact absurd (hseq j (a3.mp hi)) hj
          refine ⟨a1, a2, ?_, a4⟩
          rw [hnot]
          constructor
          · intro h; simp at h
          · intro hc
            cases m with
            | none => simp [Spec.Chunk.nextCur] at hc; exact absurd hc.symm hj
            | some msg => simp [Spec.Chunk.nextCur] at hc
      · -- in flight
        intro j hj
        cases m with
        | some msg => simp [Spec.Chunk.nextCur] at hj
        | none =>
          simp only [Spec.Chunk.nextCur, Option.some.injEq] at hj
          subst hj
          obtain ⟨n1, _, n3⟩ := hN' rfl
          exact ⟨st', by rw [hstr, mapGet_mapInsert_self], rfl, n1, n3⟩
      · -- idle
        intro hn
        cases m with
        | none => simp [Spec.Chunk.nextCur] at hn
        | some msg => exact hB' rfl

end Rml.DesSpec

namespace Rml.DesSpec
open Rml Rml.Bytes Rml.Chunk Rml.Des
open Rml.Spec.Chunk (CsState Announced)

theorem parse_le {d : Bytes} {n : Nat} (h : parseSetChunkSize d = some n) : n ≤ maxChunkSize := by
  unfold parseSetChunkSize at h
  split at h
  · dsimp only at h
    split at h
    · simp at h
    · simp only [Option.some.injEq] at h; omega
  · simp at h

theorem rel_cs {s s2 : Spec.Chunk.State} {c : Core} (hR : Rel s none c) (hs : s2.streams = s.streams)
    (hp : 1 ≤ s2.cs) : Rel s2 none { c with maxCs := s2.cs } := by
  refine ⟨hR.stage, rfl, hp, ?_, ?_, ?_, hR.idle⟩
  · intro k; rw [hs]; exact hR.prev k
  · intro k st h; rw [hs] at h; exact hR.wf k st h
  · intro k h; simp at h

theorem honour_sim {s' : Spec.Chunk.State} {cs : Nat} {c : Core} {msg : Msg}
    (hR : Rel { s' with cs := cs } none c) (hcs : s'.cs = newCs cs msg)
    (hok : Spec.Chunk.msgOk (some msg) = true) :
    ∃ c'', honour c msg = .ok c'' ∧ Rel s' none c'' := by
  have hsame : newCs cs msg = cs → Rel s' none c := by
    intro h
    have : ({ s' with cs := cs } : Spec.Chunk.State) = s' := by
      cases s'; simp only [Spec.Chunk.State.mk.injEq, and_true]; rw [← h, ← hcs]
    rw [this] at hR; exact hR
  unfold honour
  unfold newCs at hcs hsame
  by_cases ht : msg.typ = 1
  · simp only [ht, if_true] at hcs hsame ⊢
    cases hp : parseSetChunkSize msg.data with
    | none =>
      simp only [hp] at hcs hsame ⊢
      exact ⟨c, rfl, hsame trivial⟩
    | some n =>
      simp only [hp] at hcs hsame ⊢
      have hn0 : n ≠ 0 := by
        intro h0
        unfold Spec.Chunk.msgOk at hok
        simp [ht, hp, h0] at hok
      have hle := parse_le hp
      have h1 : n ≥ 1 := by omega
      simp only [h1, if_true] at hcs
      unfold setMaxChunkSize
      have : ¬ (n = 0 ∨ n > maxChunkSize) := by omega
      simp only [this, if_false]
      refine ⟨_, rfl, ?_⟩
      have hr := rel_cs (s2 := s') hR rfl (by omega)
      rw [hcs] at hr
      exact hr
  · simp only [ht, if_false] at hcs hsame ⊢
    exact ⟨c, rfl, hsame trivial⟩

theorem run_nil {c : Core} (hs : c.stage = .csid) (acc : List Msg) :
    run c [] acc = { core := c, buf := [], msgs := acc, err := none } := by
  rw [run_eq]
  have : stageStep c [] = .needMore := by unfold stageStep; simp [hs, basicHdr]
  rw [this]

/-- Thm B, loop form -/
theorem decodeSeq_sim : ∀ (f : Nat) (s : Spec.Chunk.State) (cur : Option Nat) (c : Core) (bs : Bytes)
    (acc ms : List Msg), Rel s cur c → Spec.Chunk.decodeSeqFuel f s cur bs acc = some ms →
    ∃ c', run c bs acc = { core := c', buf := [], msgs := ms, err := none } ∧ c'.stage = .csid := by
  intro f
  induction f with
  | zero =>
    intro s cur c bs acc ms hR h
    unfold Spec.Chunk.decodeSeqFuel at h
    cases bs with
    | nil =>
      simp only [List.isEmpty_nil, if_true, Option.some.injEq] at h
      subst h
      exact ⟨c, run_nil hR.stage acc, hR.stage⟩
    | cons x t => simp at h
  | succ f ih =>
    intro s cur c bs acc ms hR h
    unfold Spec.Chunk.decodeSeqFuel at h
    cases bs with
    | nil =>
      simp only [List.isEmpty_nil, if_true, Option.some.injEq] at h
      subst h
      exact ⟨c, run_nil hR.stage acc, hR.stage⟩
    | cons x t =>
      simp only [List.isEmpty_cons, Bool.false_eq_true, if_false] at h
      by_cases hso : Spec.Chunk.strictOk s cur (x :: t) = false
      · simp [hso] at h
      · simp only [hso, if_false] at h
        have hso' : Spec.Chunk.strictOk s cur (x :: t) = true := by simpa using hso
        cases hc : Spec.Chunk.chunk s (x :: t) with
        | none => simp [hc] at h
        | some p =>
          obtain ⟨s', m, rest⟩ := p
          simp only [hc] at h
          by_cases hmo : Spec.Chunk.msgOk m = false
          · simp [hmo] at h
          · simp only [hmo, if_false] at h
            have hmo' : Spec.Chunk.msgOk m = true := by simpa using hmo
            obtain ⟨c', hdes, hR', hcs'⟩ := chunk_sim hR hso' hc
            rw [run_desChunk c c' (x :: t) rest m acc hR.stage hdes]
            cases m with
            | none =>
              simp only [csAfter] at hcs'
              have : ({ s' with cs := s.cs } : Spec.Chunk.State) = s' := by
                cases s'; simp only [Spec.Chunk.State.mk.injEq, and_true]; exact hcs'.symm
              rw [this] at hR'
              exact ih s' _ c' rest acc ms hR' h
            | some msg =>
              simp only [csAfter] at hcs'
              obtain ⟨c'', hh, hR''⟩ := honour_sim hR' hcs' hmo'
              simp only [hh]
              exact ih s' _ c'' rest (acc ++ [msg]) ms hR'' h

/-- **Thm B.**  Whatever a sequential, strictly conformant sender produced — as judged by the
    specification reader — the deserializer, fed the whole byte string, returns exactly the
    specification's messages, reports no error and keeps no byte buffered. -/
theorem feed_decodeSeq (bs : Bytes) (ms : List Msg) (h : Spec.Chunk.decodeSeq bs = some ms) :
    (feed {} bs).msgs = ms ∧ (feed {} bs).err = none ∧ (feed {} bs).buf = [] := by
  obtain ⟨c', hrun, _⟩ := decodeSeq_sim bs.length {} none {} bs [] ms rel_init h
  have : feed {} bs = run {} bs [] := by rw [feed_eq_run]; rfl
  rw [this, hrun]
  exact ⟨rfl, rfl, rfl⟩

end Rml.DesSpec
