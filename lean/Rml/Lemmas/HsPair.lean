/-
Two handshakes driven against each other.  By the partition theorem (HsPart) what a party has emitted,
and whether it is complete, is a function of the bytes it has received so far — whatever the calls were.
`emit` / `trailing` are that function in closed form.  A configuration of the two-party system is then
described by what each side has received; the network only requires that what a side has received is a
prefix of what the other has emitted (plus application bytes sent after its handshake bytes).  Every such
configuration is error-free, and every quiescent one (nothing in flight) is a completed handshake.
-/
import Rml.Lemmas.HsPart
import Rml.Props.C11
namespace Rml.HsPair
open Rml Rml.Hs

/-- everything a party that has been called at least once has emitted after receiving `recv` -/
def emit (hmac : Hmac) (s : State) (recv : Bytes) : Bytes :=
  3 :: (genP1 hmac s.role s.fill1).1 ++
    (if recv.length < 1537 then [] else genP2 hmac s.role ((recv.drop 1).take 1536) s.fill2)

/-- what it has handed back as trailing bytes (`none`: not complete yet) -/
def trailing (recv : Bytes) : Option Bytes :=
  if recv.length < 3073 then none else some (recv.drop 3073)

/-- **closed form of a fresh party.**  Fed `recv` (in one call; in any partition by
    `feedCalls_partition`), a fresh party whose input does not start with a wrong version byte does not
    err, has emitted `emit recv` and handed back `trailing recv`. -/
theorem fresh_closed (hmac : Hmac) (s : State) (recv : Bytes) (hs : s.stage = .needToSend) (hb : s.buf = [])
    (h3 : ∀ c r, recv = c :: r → c = 3) :
    match feedCalls hmac s [recv] with
    | .ok (_, out, tr) => out = emit hmac s recv ∧ tr = trailing recv
    | .error _ => False := by
  rw [feedCalls_single, processBytes_eq_procSpec]
  simp only [procSpec, hs, hb, List.nil_append]
  cases recv with
  | nil => simp [fin0, emit, trailing]
  | cons c r =>
    have hc : c = 3 := h3 c r rfl
    subst hc
    simp only [fin0, ne_eq, not_true_eq_false, if_false, fin1, packetSize]
    by_cases h1 : r.length < 1536
    · simp only [h1, if_true]
      have e1 : (3 :: r).length < 1537 := by simp; omega
      have e2 : (3 :: r).length < 3073 := by simp; omega
      simp [emit, trailing, e1, e2]
      exact ⟨fun h => by omega, by omega⟩
    · simp only [h1, if_false, fin2, packetSize]
      have e1 : ¬ (3 :: r).length < 1537 := by simp; omega
      by_cases h2 : (r.drop 1536).length < 1536
      · simp only [h2, if_true]
        have e2 : (3 :: r).length < 3073 := by simp at h2 ⊢; omega
        simp [emit, trailing, e1, e2]
        simp at h2
        exact ⟨fun h => by omega, by omega⟩
      · simp only [h2, if_false]
        have e2 : ¬ (3 :: r).length < 3073 := by simp at h2 ⊢; omega
        simp [emit, trailing, e1, e2, List.drop_drop]
        simp at h2
        exact ⟨fun h => by omega, by omega⟩

theorem emit_head (hmac : Hmac) (s : State) (recv : Bytes) : ∃ t, emit hmac s recv = 3 :: t := ⟨_, rfl⟩

/-- lengths of the two packets (hypotheses: a 32-byte MAC, fills of the sizes the code draws) -/
theorem lens (hmac : Hmac) (hlen : ∀ i k, (hmac i k).length = 32) (s : State) (p1 : Bytes)
    (hf1 : s.fill1.length = 1524) (hf2 : s.fill2.length = 1536) (h1 : p1.length = 1536) :
    (genP1 hmac s.role s.fill1).1.length = 1536 ∧ (genP2 hmac s.role p1 s.fill2).length = 1536 := by
  refine ⟨(C11.C11_p1 hmac hlen s.role s.fill1 hf1).1, ?_⟩
  cases hd : digestFor hmac p1 (peerKey s.role) with
  | none => rw [C11.C11_p2_echo hmac s.role p1 s.fill2 hd]; exact h1
  | some d => exact (C11.C11_p2_digest hmac hlen s.role p1 s.fill2 d hf2 hd).1

/-- everything party X has put on the wire: handshake bytes (once it has been called), then its
    application's bytes -/
def wireOf (hmac : Hmac) (act : Bool) (s : State) (recv app : Bytes) : Bytes :=
  (if act then emit hmac s recv else []) ++ app

/-- a configuration the network can be in: each side has received a prefix of what the other has put on
    the wire; a side that received something has been called; application bytes follow the handshake
    bytes only -/
structure Consistent (hmac : Hmac) (a b : State) (actA actB : Bool) (recvA recvB appA appB : Bytes) : Prop where
  preA : recvA <+: wireOf hmac actB b recvB appB
  preB : recvB <+: wireOf hmac actA a recvA appA
  calledA : recvA ≠ [] → actA = true
  calledB : recvB ≠ [] → actB = true
  appA : appA ≠ [] → actA = true ∧ 3073 ≤ recvA.length
  appB : appB ≠ [] → actB = true ∧ 3073 ≤ recvB.length

theorem head3 {hmac : Hmac} {b : State} {actB : Bool} {recvA recvB appB : Bytes}
    (hp : recvA <+: wireOf hmac actB b recvB appB) (happ : appB ≠ [] → actB = true ∧ 3073 ≤ recvB.length) :
    ∀ c r, recvA = c :: r → c = 3 := by
  intro c r hr
  obtain ⟨t, ht⟩ := hp
  unfold wireOf at ht
  cases actB with
  | true =>
    simp only [if_true, emit, List.cons_append, hr] at ht
    exact (List.cons.inj ht).1
  | false =>
    simp only [Bool.false_eq_true, if_false, List.nil_append] at ht
    have : appB ≠ [] := by intro h; rw [h, hr] at ht; simp at ht
    exact absurd (happ this).1 (by simp)

/-- **no configuration errs.**  In every consistent configuration, a side that has been called (any
    number of times, with any pieces) has not erred, has emitted exactly `emit`, and has handed back
    exactly `trailing`. -/
theorem no_error (hmac : Hmac) (a b : State) (actA actB : Bool) (recvA recvB appA appB : Bytes)
    (ha : a.stage = .needToSend ∧ a.buf = []) (hb : b.stage = .needToSend ∧ b.buf = [])
    (hc : Consistent hmac a b actA actB recvA recvB appA appB)
    (c1 : Bytes) (r1 : List Bytes) (hcalls : (c1 :: r1).flatten = recvA) :
    match feedCalls hmac a (c1 :: r1) with
    | .ok (_, out, tr) => out = emit hmac a recvA ∧ tr = trailing recvA
    | .error _ => False := by
  rw [feedCalls_partition, hcalls]
  exact fresh_closed hmac a recvA ha.1 ha.2 (head3 hc.preA hc.appB)

/-- **every quiescent configuration is a completed handshake.**  Nothing in flight (each side has
    received all the other put on the wire) and both sides have been called: each side has emitted
    exactly its version byte, its packet 1 and its answer to the peer's packet 1 — 3073 bytes — and has
    handed back exactly the peer's application bytes. -/
theorem quiescent_complete (hmac : Hmac) (hlen : ∀ i k, (hmac i k).length = 32) (a b : State)
    (recvA recvB appA appB : Bytes)
    (hfa : a.fill1.length = 1524 ∧ a.fill2.length = 1536) (hfb : b.fill1.length = 1524 ∧ b.fill2.length = 1536)
    (hA : recvA = wireOf hmac true b recvB appB) (hB : recvB = wireOf hmac true a recvA appA) :
    emit hmac a recvA = 3 :: (genP1 hmac a.role a.fill1).1 ++ genP2 hmac a.role (genP1 hmac b.role b.fill1).1 a.fill2 ∧
    emit hmac b recvB = 3 :: (genP1 hmac b.role b.fill1).1 ++ genP2 hmac b.role (genP1 hmac a.role a.fill1).1 b.fill2 ∧
    (emit hmac a recvA).length = 3073 ∧ (emit hmac b recvB).length = 3073 ∧
    trailing recvA = some appB ∧ trailing recvB = some appA := by
  have la := (C11.C11_p1 hmac hlen a.role a.fill1 hfa.1).1
  have lb := (C11.C11_p1 hmac hlen b.role b.fill1 hfb.1).1
  -- each side has received at least the other's version byte and packet 1
  have hrA : 1537 ≤ recvA.length := by
    rw [hA]; unfold wireOf emit; simp only [if_true, List.length_append, List.length_cons]; omega
  have hrB : 1537 ≤ recvB.length := by
    rw [hB]; unfold wireOf emit; simp only [if_true, List.length_append, List.length_cons]; omega
  have nA : ¬ recvA.length < 1537 := by omega
  have nB : ¬ recvB.length < 1537 := by omega
  -- so each answered; the packet 1 it answered is the peer's
  have pA : (recvA.drop 1).take 1536 = (genP1 hmac b.role b.fill1).1 := by
    rw [hA]; unfold wireOf emit
    simp only [if_true, List.cons_append, List.drop_succ_cons, List.drop_zero, List.append_assoc]
    exact take_pre _ _ _ lb
  have pB : (recvB.drop 1).take 1536 = (genP1 hmac a.role a.fill1).1 := by
    rw [hB]; unfold wireOf emit
    simp only [if_true, List.cons_append, List.drop_succ_cons, List.drop_zero, List.append_assoc]
    exact take_pre _ _ _ la
  have eA : emit hmac a recvA = 3 :: (genP1 hmac a.role a.fill1).1 ++ genP2 hmac a.role (genP1 hmac b.role b.fill1).1 a.fill2 := by
    unfold emit; simp only [nA, if_false, pA]
  have eB : emit hmac b recvB = 3 :: (genP1 hmac b.role b.fill1).1 ++ genP2 hmac b.role (genP1 hmac a.role a.fill1).1 b.fill2 := by
    unfold emit; simp only [nB, if_false, pB]
  have l2a := (lens hmac hlen a (genP1 hmac b.role b.fill1).1 hfa.1 hfa.2 lb).2
  have l2b := (lens hmac hlen b (genP1 hmac a.role a.fill1).1 hfb.1 hfb.2 la).2
  have lenA : (emit hmac a recvA).length = 3073 := by rw [eA]; simp only [List.cons_append, List.length_cons, List.length_append]; omega
  have lenB : (emit hmac b recvB).length = 3073 := by rw [eB]; simp only [List.cons_append, List.length_cons, List.length_append]; omega
  refine ⟨eA, eB, lenA, lenB, ?_, ?_⟩
  · unfold trailing
    have : ¬ recvA.length < 3073 := by rw [hA]; unfold wireOf; simp only [if_true, List.length_append]; omega
    simp only [this, if_false, Option.some.injEq]
    rw [hA]; unfold wireOf; simp only [if_true]
    exact drop_pre _ _ _ lenB
  · unfold trailing
    have : ¬ recvB.length < 3073 := by rw [hB]; unfold wireOf; simp only [if_true, List.length_append]; omega
    simp only [this, if_false, Option.some.injEq]
    rw [hB]; unfold wireOf; simp only [if_true]
    exact drop_pre _ _ _ lenA

/-- what has been emitted only grows, and is final once packet 1 of the peer is in -/
theorem emit_mono (hmac : Hmac) (s : State) (recv d : Bytes) :
    emit hmac s recv <+: emit hmac s (recv ++ d) ∧
    (1537 ≤ recv.length → emit hmac s (recv ++ d) = emit hmac s recv) := by
  unfold emit
  by_cases h : recv.length < 1537
  · simp only [h, if_true, List.append_nil]
    refine ⟨?_, fun hh => by omega⟩
    exact ⟨_, rfl⟩
  · have h' : ¬ (recv ++ d).length < 1537 := by simp; omega
    simp only [h, h', if_false]
    have : ((recv ++ d).drop 1).take 1536 = (recv.drop 1).take 1536 := by
      rw [List.drop_append_of_le_length (by omega), List.take_append_of_le_length (by simp; omega)]
    rw [this]
    exact ⟨List.prefix_refl _, fun _ => rfl⟩

/-- the configurations two fresh parties can reach: a side is called with the next bytes in flight towards
    it (possibly none: the first call may be an empty one, or `generate_outbound_p0_and_p1`, which has the
    same effect), or a side's application sends bytes after that side's handshake has completed -/
inductive Reach (hmac : Hmac) (a b : State) : Bool → Bool → Bytes → Bytes → Bytes → Bytes → Prop
  | init : Reach hmac a b false false [] [] [] []
  | callA (actA actB : Bool) (recvA recvB appA appB d : Bytes) :
      Reach hmac a b actA actB recvA recvB appA appB →
      recvA ++ d <+: wireOf hmac actB b recvB appB →
      Reach hmac a b true actB (recvA ++ d) recvB appA appB
  | callB (actA actB : Bool) (recvA recvB appA appB d : Bytes) :
      Reach hmac a b actA actB recvA recvB appA appB →
      recvB ++ d <+: wireOf hmac actA a recvA appA →
      Reach hmac a b actA true recvA (recvB ++ d) appA appB
  | sendA (actB : Bool) (recvA recvB appA appB d : Bytes) :
      Reach hmac a b true actB recvA recvB appA appB → 3073 ≤ recvA.length →
      Reach hmac a b true actB recvA recvB (appA ++ d) appB
  | sendB (actA : Bool) (recvA recvB appA appB d : Bytes) :
      Reach hmac a b actA true recvA recvB appA appB → 3073 ≤ recvB.length →
      Reach hmac a b actA true recvA recvB appA (appB ++ d)

theorem wire_grows (hmac : Hmac) (s : State) (act : Bool) (recv d app : Bytes)
    (happ : app ≠ [] → act = true ∧ 3073 ≤ recv.length) :
    wireOf hmac act s recv app <+: wireOf hmac true s (recv ++ d) app := by
  unfold wireOf
  obtain ⟨hm1, hm2⟩ := emit_mono hmac s recv d
  cases act with
  | false =>
    have : app = [] := by
      by_cases h : app = []
      · exact h
      · exact absurd (happ h).1 (by simp)
    simp [this]
  | true =>
    simp only [if_true]
    by_cases h : 1537 ≤ recv.length
    · rw [hm2 h]; exact List.prefix_refl _
    · have : app = [] := by
        by_cases h' : app = []
        · exact h'
        · have := (happ h').2; omega
      simp only [this, List.append_nil]; exact hm1

theorem reach_consistent {hmac : Hmac} {a b : State} {actA actB : Bool} {recvA recvB appA appB : Bytes}
    (h : Reach hmac a b actA actB recvA recvB appA appB) :
    Consistent hmac a b actA actB recvA recvB appA appB := by
  induction h with
  | init =>
    exact ⟨List.nil_prefix, List.nil_prefix, fun h => absurd rfl h, fun h => absurd rfl h,
      fun h => absurd rfl h, fun h => absurd rfl h⟩
  | callA actA actB recvA recvB appA appB d _ hpre ih =>
    refine ⟨hpre, ?_, fun _ => rfl, ih.calledB, ?_, ih.appB⟩
    · exact List.IsPrefix.trans ih.preB (wire_grows hmac a actA recvA d appA ih.appA)
    · intro h; have := ih.appA h; exact ⟨rfl, by simp; omega⟩
  | callB actA actB recvA recvB appA appB d _ hpre ih =>
    refine ⟨?_, hpre, ih.calledA, fun _ => rfl, ih.appA, ?_⟩
    · exact List.IsPrefix.trans ih.preA (wire_grows hmac b actB recvB d appB ih.appB)
    · intro h; have := ih.appB h; exact ⟨rfl, by simp; omega⟩
  | sendA actB recvA recvB appA appB d _ hlen ih =>
    refine ⟨ih.preA, ?_, ih.calledA, ih.calledB, fun _ => ⟨rfl, hlen⟩, ih.appB⟩
    unfold wireOf at *
    rw [← List.append_assoc]
    exact List.IsPrefix.trans ih.preB (List.prefix_append _ _)
  | sendB actA recvA recvB appA appB d _ hlen ih =>
    refine ⟨?_, ih.preB, ih.calledA, ih.calledB, ih.appA, fun _ => ⟨rfl, hlen⟩⟩
    unfold wireOf at *
    rw [← List.append_assoc]
    exact List.IsPrefix.trans ih.preA (List.prefix_append _ _)

end Rml.HsPair
