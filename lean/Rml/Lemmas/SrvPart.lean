/-
C15 for the server session's message loop: delivering more bytes later is the same as having had them
in the buffer from the start.
-/
import Rml.Lemmas.SessBuf
import Rml.Lemmas.DesNextMono
namespace Rml.SrvPart
open Rml Rml.Bytes Rml.Chunk Rml.Amf0 Rml.Msgs Rml.Sess Rml.BufS
open Rml.Safe.S (FuelOK DesFrame handleMessage_des)

theorem fuelOK_step {f : Nat} {s s2 : Srv.State} {p : Msg} (hf : FuelOK (f + 1) s)
    (hp : (Des.next s.des).msg = some p)
    (hd : DesFrame { s with des := { core := (Des.next s.des).core, buf := (Des.next s.des).buf } } s2) :
    FuelOK f s2 := by
  obtain ⟨_, _, n3⟩ := Des.next_facts s.des
  obtain ⟨k1, k2⟩ := n3 p hp
  unfold FuelOK at hf ⊢
  rw [hd.1, hd.2]
  simp only [k1, if_true]
  split at hf
  · rename_i hcs
    have := k2 hcs
    omega
  · omega

/-- the loop's result does not depend on how much spare fuel the model gives it -/
theorem msgLoop_fuel (f : Nat) : ∀ (f' : Nat) (s : Srv.State) (now : Nat) (acc : List Srv.Res),
    FuelOK f s → FuelOK f' s → Srv.msgLoop f s now acc = Srv.msgLoop f' s now acc := by
  induction f with
  | zero => intro f' s now acc hf; unfold FuelOK at hf; split at hf <;> omega
  | succ f ih =>
    intro f' s now acc hf hf'
    cases f' with
    | zero => unfold FuelOK at hf'; split at hf' <;> omega
    | succ f' =>
      simp only [Srv.msgLoop]
      split
      · rfl
      · split
        · rfl
        · rename_i p hp
          split
          · rfl
          · split
            · rfl
            · rename_i s2 rs2 hmsg
              have hd := handleMessage_des hmsg
              exact ih f' s2 now _ (fuelOK_step hf hp hd) (fuelOK_step hf' hp hd)

/-- what the loop does on a longer buffer, in terms of what it does on the shorter one -/
def after (ys : Bytes) (now : Nat) (F2 : Nat) (x : Srv.State × Except Err (List Srv.Res)) :
    Srv.State × Except Err (List Srv.Res) :=
  match x.2 with
  | .ok r1 => Srv.msgLoop F2 (withBuf x.1 (x.1.des.buf ++ ys)) now r1
  | .error e => (withBuf x.1 (x.1.des.buf ++ ys), .error e)

theorem msgLoop_next_congr (f : Nat) (s : Srv.State) (d1 d2 : Des.State) (now : Nat) (acc : List Srv.Res)
    (h : Des.next d1 = Des.next d2) :
    Srv.msgLoop (f + 1) { s with des := d1 } now acc = Srv.msgLoop (f + 1) { s with des := d2 } now acc := by
  simp only [Srv.msgLoop, h]

/-- two loops that start with the same `get_next_message` result (and agree on everything but the
    deserializer) are the same loop, whatever spare fuel each has -/
theorem msgLoop_congr (s : Srv.State) (d1 d2 : Des.State) (f1 f2 now : Nat) (acc : List Srv.Res)
    (h : Des.next d1 = Des.next d2) (hf1 : FuelOK f1 { s with des := d1 }) (hf2 : FuelOK f2 { s with des := d2 }) :
    Srv.msgLoop f1 { s with des := d1 } now acc = Srv.msgLoop f2 { s with des := d2 } now acc := by
  cases f1 with
  | zero => unfold FuelOK at hf1; split at hf1 <;> omega
  | succ f1 =>
    cases f2 with
    | zero => unfold FuelOK at hf2; split at hf2 <;> omega
    | succ f2 =>
      simp only [Srv.msgLoop]
      rw [h]
      split
      · rfl
      · split
        · rfl
        · rename_i p hp
          split
          · rfl
          · split
            · rfl
            · rename_i s2 rs2 hmsg
              have hd := handleMessage_des hmsg
              have hp1 : (Des.next ({ s with des := d1 } : Srv.State).des).msg = some p := by
                show (Des.next d1).msg = some p; rw [h]; exact hp
              have e1 : FuelOK f1 s2 := by
                refine fuelOK_step hf1 hp1 ?_
                show DesFrame { s with des := { core := (Des.next d1).core, buf := (Des.next d1).buf } } s2
                rw [h]; exact hd
              have e2 : FuelOK f2 s2 := fuelOK_step hf2 (show (Des.next ({ s with des := d2 } : Srv.State).des).msg = some p from hp) hd
              exact msgLoop_fuel f1 f2 s2 now _ e1 e2

/-- **the loop on a longer buffer.**  Running the message loop with `ys` appended to the buffer is
    running it without `ys` and then — if that ended for lack of input — continuing with `ys`; if it
    ended in an error, the same error in the same place. -/
theorem msgLoop_two (F : Nat) : ∀ (F' F2 : Nat) (s : Srv.State) (ys : Bytes) (now : Nat) (acc : List Srv.Res),
    FuelOK F s → FuelOK F' (withBuf s (s.des.buf ++ ys)) →
    (∀ s1 r1, Srv.msgLoop F s now acc = (s1, .ok r1) → FuelOK F2 (withBuf s1 (s1.des.buf ++ ys))) →
    Srv.msgLoop F' (withBuf s (s.des.buf ++ ys)) now acc = after ys now F2 (Srv.msgLoop F s now acc) := by
  induction F with
  | zero => intro F' F2 s ys now acc hf; unfold FuelOK at hf; split at hf <;> omega
  | succ f ih =>
    intro F' F2 s ys now acc hf hf' h2
    cases F' with
    | zero => unfold FuelOK at hf'; split at hf' <;> omega
    | succ f' =>
      have happ := Des.next_append s.des ys
      -- the state the long loop starts from
      have hlong : (withBuf s (s.des.buf ++ ys)) = { s with des := { s.des with buf := s.des.buf ++ ys } } := rfl
      cases herr : (Des.next s.des).err with
      | some e =>
        simp only [herr] at happ
        simp only [Srv.msgLoop, after, hlong, happ, herr]
        rfl
      | none =>
        cases hmsg : (Des.next s.des).msg with
        | none =>
          simp only [herr, hmsg] at happ
          have hshort : Srv.msgLoop (f + 1) s now acc =
              ({ s with des := { core := (Des.next s.des).core, buf := (Des.next s.des).buf } }, .ok acc) := by
            simp only [Srv.msgLoop, herr, hmsg]
          have hF2 := h2 _ _ hshort
          rw [hshort]
          simp only [after]
          exact msgLoop_congr s _ _ (f' + 1) F2 now acc happ hf' hF2
        | some p =>
          simp only [herr, hmsg] at happ
          simp only [Srv.msgLoop, hlong, happ, herr, hmsg]
          cases hfp : fromPayload p.typ p.data with
          | error e => simp only [after]; rfl
          | ok m =>
            simp only
            have hbuf := handleMessage_buf { s with des := { core := (Des.next s.des).core, buf := (Des.next s.des).buf } }
              ((Des.next s.des).buf ++ ys) now p m
            unfold withBuf at hbuf
            simp only at hbuf
            rw [hbuf]
            cases hhm : Srv.handleMessage { s with des := { core := (Des.next s.des).core, buf := (Des.next s.des).buf } } now p m with
            | error e => simp only [lift, after]; rfl
            | ok q =>
              obtain ⟨s2, rs2⟩ := q
              simp only [lift]
              have hd := handleMessage_des hhm
              have e1 : FuelOK f s2 := fuelOK_step hf hmsg hd
              have hb2 : s2.des.buf = (Des.next s.des).buf := hd.1
              have e2 : FuelOK f' (withBuf s2 (s2.des.buf ++ ys)) := by
                have hp' : (Des.next (withBuf s (s.des.buf ++ ys)).des).msg = some p := by
                  show (Des.next { s.des with buf := s.des.buf ++ ys }).msg = some p
                  rw [happ]
                refine fuelOK_step hf' hp' ?_
                show DesFrame _ (withBuf s2 (s2.des.buf ++ ys))
                constructor
                · show s2.des.buf ++ ys = (Des.next { s.des with buf := s.des.buf ++ ys }).buf
                  rw [happ, hb2]
                · show s2.des.core.stage = (Des.next { s.des with buf := s.des.buf ++ ys }).core.stage
                  rw [happ]; exact hd.2
              have := ih f' F2 s2 ys now (acc ++ rs2) e1 e2 (fun s1 r1 hh => h2 s1 r1 (by
                simp only [Srv.msgLoop, herr, hmsg, hfp, hhm]; exact hh))
              rw [← hb2]
              exact this

def mapOk (acc : List Srv.Res) (x : Srv.State × Except Err (List Srv.Res)) : Srv.State × Except Err (List Srv.Res) :=
  (x.1, match x.2 with
        | .ok r => .ok (acc ++ r)
        | .error e => .error e)

/-- what had been gathered is only a prefix of the result -/
theorem msgLoop_acc (f : Nat) : ∀ (s : Srv.State) (now : Nat) (acc : List Srv.Res),
    Srv.msgLoop f s now acc = mapOk acc (Srv.msgLoop f s now []) := by
  induction f with
  | zero => intro s now acc; rfl
  | succ f ih =>
    intro s now acc
    simp only [Srv.msgLoop]
    split
    · rfl
    · split
      · simp [mapOk]
      · split
        · rfl
        · split
          · rfl
          · rename_i s2 rs2 hmsg
            rw [ih s2 now (acc ++ rs2), ih s2 now ([] ++ rs2)]
            simp only [mapOk, List.nil_append]
            cases (Srv.msgLoop f s2 now []).2 <;> simp

/-- what `handle_input` does with the bytes once its acknowledgement accounting is done -/
def drain (s : Srv.State) (now : Nat) (bytes : Bytes) : Srv.State × Except Err (List Srv.Res) :=
  Srv.msgLoop (bytes.length + s.des.buf.length + 2) (withBuf s (s.des.buf ++ bytes)) now []

theorem fuelOK_drain (s : Srv.State) (bytes : Bytes) :
    FuelOK (bytes.length + s.des.buf.length + 2) (withBuf s (s.des.buf ++ bytes)) := by
  unfold FuelOK
  show (s.des.buf ++ bytes).length + _ ≤ _
  rw [List.length_append]
  split <;> omega

/-- **C15, server session.**  Draining `xs ++ ys` in one call is draining `xs`, then `ys`: the same
    messages are handled in the same order from the same states, the same error (if any) ends it at the
    same message, and the final state is the same.  (If a later piece fails, the one-call caller gets
    the error instead of the results `r1` the two-call caller already holds: known finding K2b.) -/
theorem drain_two (s : Srv.State) (now : Nat) (xs ys : Bytes) :
    drain s now (xs ++ ys) =
      match drain s now xs with
      | (s1, .ok r1) => mapOk r1 (drain s1 now ys)
      | (s1, .error e) => (withBuf s1 (s1.des.buf ++ ys), .error e) := by
  unfold drain
  have hb : s.des.buf ++ (xs ++ ys) = (withBuf s (s.des.buf ++ xs)).des.buf ++ ys := by
    show _ = (s.des.buf ++ xs) ++ ys; rw [List.append_assoc]
  have hs : withBuf s (s.des.buf ++ (xs ++ ys)) = withBuf (withBuf s (s.des.buf ++ xs)) ((withBuf s (s.des.buf ++ xs)).des.buf ++ ys) := by
    rw [← hb]; rfl
  rw [hs]
  have key := msgLoop_two (xs.length + s.des.buf.length + 2) ((xs ++ ys).length + s.des.buf.length + 2)
    0 (withBuf s (s.des.buf ++ xs)) ys now [] (fuelOK_drain s xs)
  -- the fuel of the second call depends on the state the first call ends in: instantiate per case
  cases hfirst : Srv.msgLoop (xs.length + s.des.buf.length + 2) (withBuf s (s.des.buf ++ xs)) now [] with
  | mk s1 r =>
    cases r with
    | error e =>
      have := msgLoop_two (xs.length + s.des.buf.length + 2) ((xs ++ ys).length + s.des.buf.length + 2)
        0 (withBuf s (s.des.buf ++ xs)) ys now [] (fuelOK_drain s xs)
        (by rw [← hb]; exact fuelOK_drain s (xs ++ ys))
        (fun s1' r1' hh => by rw [hfirst] at hh; simp at hh)
      rw [this, hfirst]; rfl
    | ok r1 =>
      have := msgLoop_two (xs.length + s.des.buf.length + 2) ((xs ++ ys).length + s.des.buf.length + 2)
        (ys.length + s1.des.buf.length + 2) (withBuf s (s.des.buf ++ xs)) ys now [] (fuelOK_drain s xs)
        (by rw [← hb]; exact fuelOK_drain s (xs ++ ys))
        (fun s1' r1' hh => by
          rw [hfirst] at hh
          simp only [Prod.mk.injEq, Except.ok.injEq] at hh
          rw [← hh.1]; exact fuelOK_drain s1 ys)
      rw [this, hfirst]
      simp only [after]
      exact msgLoop_acc _ _ now r1

/-- drain the pieces one call after another; an error ends it -/
def drainAll (s : Srv.State) (now : Nat) : Bytes → List Bytes → Srv.State × Except Err (List Srv.Res)
  | call, [] => drain s now call
  | call, c2 :: rest =>
    match drain s now call with
    | (s1, .ok r1) => mapOk r1 (drainAll s1 now c2 rest)
    | (s1, .error e) => (s1, .error e)

/-- **C15, server session, any number of pieces**: if draining the whole stream in one call succeeds,
    draining it piece by piece — any pieces, including empty ones — gives the same final state and the
    same results in the same order -/
theorem drain_partition (now : Nat) : ∀ (rest : List Bytes) (s sF : Srv.State) (call : Bytes) (rs : List Srv.Res),
    drain s now (call :: rest).flatten = (sF, .ok rs) → drainAll s now call rest = (sF, .ok rs) := by
  intro rest
  induction rest with
  | nil =>
    intro s sF call rs h
    simpa [drainAll] using h
  | cons c2 rest ih =>
    intro s sF call rs h
    have h2 : (call :: c2 :: rest).flatten = call ++ (c2 :: rest).flatten := by simp
    rw [h2, drain_two] at h
    simp only [drainAll]
    cases hd : drain s now call with
    | mk s1 r =>
      rw [hd] at h
      cases r with
      | error e => simp at h
      | ok r1 =>
        simp only at h ⊢
        cases hr : drain s1 now (c2 :: rest).flatten with
        | mk s2 r2 =>
          rw [hr] at h
          cases r2 with
          | error e => simp [mapOk] at h
          | ok rs2 =>
            have := ih s1 s2 c2 rs2 hr
            rw [this]
            exact h

end Rml.SrvPart
