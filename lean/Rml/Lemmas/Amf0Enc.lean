/- Thm E: whatever the encoder model accepts, it encodes as the specification prescribes. -/
import Rml.Spec.Amf0
import Rml.Lemmas.Bytes
namespace Rml.Amf0
open Rml Rml.Bytes Rml.Spec.Amf0

mutual
theorem encVal_spec (d : Nat) (v : Val) (b : Bytes) (h : encVal d v = .ok b) (wf : v.WF) : Encodes v b := by
  cases v with
  | number n =>
    simp only [encVal, Except.ok.injEq] at h; subst h
    exact Encodes.number n (by simpa [Val.WF] using wf)
  | boolean x =>
    simp only [encVal, Except.ok.injEq] at h; subst h
    cases x
    · exact Encodes.boolFalse
    · exact Encodes.boolTrue 1 (by decide)
  | str s =>
    simp only [encVal] at h
    split at h
    · contradiction
    · simp only [Except.ok.injEq] at h; subst h
      exact Encodes.str s (by omega) (by simpa [Val.WF] using wf)
  | object ps =>
    simp only [encVal] at h
    split at h
    · contradiction
    · split at h
      · contradiction
      · rename_i body hb
        simp only [Except.ok.injEq] at h; subst h
        simp only [Val.WF] at wf
        exact Encodes.object ps body (encProps_spec (d + 1) ps body hb wf.1)
  | array vs =>
    simp only [encVal] at h
    split at h
    · contradiction
    · split at h
      · contradiction
      · rename_i body hb
        simp only [Except.ok.injEq] at h; subst h
        simp only [Val.WF] at wf
        exact Encodes.array vs body wf.2 (encList_spec (d + 1) vs body hb wf.1)
  | null => simp only [encVal, Except.ok.injEq] at h; subst h; exact Encodes.null
  | undefined => simp only [encVal, Except.ok.injEq] at h; subst h; exact Encodes.undefined
theorem encProps_spec (d : Nat) (ps : List (Bytes × Val)) (b : Bytes) (h : encProps d ps = .ok b)
    (wf : WFProps ps) : EncodesProps ps b := by
  cases ps with
  | nil => simp only [encProps, Except.ok.injEq] at h; subst h; exact EncodesProps.nil
  | cons p rest =>
    obtain ⟨k, v⟩ := p
    simp only [encProps] at h
    split at h
    · contradiction
    · split at h
      · contradiction
      · split at h
        · contradiction
        · rename_i bv hv
          split at h
          · contradiction
          · rename_i br hr
            simp only [Except.ok.injEq] at h; subst h
            simp only [WFProps] at wf
            exact EncodesProps.cons k v rest bv br (by omega) (by omega) wf.1
              (encVal_spec d v bv hv wf.2.1) (encProps_spec d rest br hr wf.2.2)
theorem encList_spec (d : Nat) (vs : List Val) (b : Bytes) (h : encList d vs = .ok b)
    (wf : WFList vs) : EncodesList vs b := by
  cases vs with
  | nil => simp only [encList, Except.ok.injEq] at h; subst h; exact EncodesList.nil
  | cons v rest =>
    simp only [encList] at h
    split at h
    · contradiction
    · rename_i bv hv
      split at h
      · contradiction
      · rename_i br hr
        simp only [Except.ok.injEq] at h; subst h
        simp only [WFList] at wf
        exact EncodesList.cons v rest bv br (encVal_spec d v bv hv wf.1) (encList_spec d rest br hr wf.2)
end

end Rml.Amf0

namespace Rml.Amf0
open Rml Rml.Bytes

/- what AMF0 and the library's documented limits can express, below `d` enclosing containers -/
mutual
def Val.Expressible (d : Nat) : Val → Prop
  | .str s => s.length ≤ 65535
  | .object ps => d < maxDepth ∧ ExpressibleProps (d + 1) ps
  | .array vs => d < maxDepth ∧ ExpressibleList (d + 1) vs
  | _ => True
def ExpressibleProps (d : Nat) : List (Bytes × Val) → Prop
  | [] => True
  | (k, v) :: r => 0 < k.length ∧ k.length ≤ 65535 ∧ v.Expressible d ∧ ExpressibleProps d r
def ExpressibleList (d : Nat) : List Val → Prop
  | [] => True
  | v :: r => v.Expressible d ∧ ExpressibleList d r
end

mutual
theorem encVal_ok_iff (d : Nat) (v : Val) : (∃ b, encVal d v = .ok b) ↔ v.Expressible d := by
  cases v with
  | number n => simp [encVal, Val.Expressible]
  | boolean x => simp [encVal, Val.Expressible]
  | str s =>
    simp only [encVal, Val.Expressible]
    split
    · simp; omega
    · simp; omega
  | object ps =>
    simp only [encVal, Val.Expressible]
    have ih := encProps_ok_iff (d + 1) ps
    split
    · simp; omega
    · cases hp : encProps (d + 1) ps with
      | error e => rw [hp] at ih; simp at ih ⊢; intro _; exact ih
      | ok body => rw [hp] at ih; simp at ih ⊢; exact ⟨by omega, ih⟩
  | array vs =>
    simp only [encVal, Val.Expressible]
    have ih := encList_ok_iff (d + 1) vs
    split
    · simp; omega
    · cases hp : encList (d + 1) vs with
      | error e => rw [hp] at ih; simp at ih ⊢; intro _; exact ih
      | ok body => rw [hp] at ih; simp at ih ⊢; exact ⟨by omega, ih⟩
  | null => simp [encVal, Val.Expressible]
  | undefined => simp [encVal, Val.Expressible]
theorem encProps_ok_iff (d : Nat) (ps : List (Bytes × Val)) :
    (∃ b, encProps d ps = .ok b) ↔ ExpressibleProps d ps := by
  cases ps with
  | nil => simp [encProps, ExpressibleProps]
  | cons p rest =>
    obtain ⟨k, v⟩ := p
    simp only [encProps, ExpressibleProps]
    have ihv := encVal_ok_iff d v
    have ihr := encProps_ok_iff d rest
    split
    · simp; omega
    · split
      · simp; omega
      · cases hv : encVal d v with
        | error e => rw [hv] at ihv; simp at ihv ⊢; intro _ _ h; exact absurd h ihv
        | ok bv =>
          rw [hv] at ihv; simp at ihv
          cases hr : encProps d rest with
          | error e => rw [hr] at ihr; simp at ihr ⊢; intro _ _ _; exact ihr
          | ok br => rw [hr] at ihr; simp at ihr ⊢; exact ⟨by omega, by omega, ihv, ihr⟩
theorem encList_ok_iff (d : Nat) (vs : List Val) :
    (∃ b, encList d vs = .ok b) ↔ ExpressibleList d vs := by
  cases vs with
  | nil => simp [encList, ExpressibleList]
  | cons v rest =>
    simp only [encList, ExpressibleList]
    have ihv := encVal_ok_iff d v
    have ihr := encList_ok_iff d rest
    cases hv : encVal d v with
    | error e => rw [hv] at ihv; simp at ihv ⊢; intro h; exact absurd h ihv
    | ok bv =>
      rw [hv] at ihv; simp at ihv
      cases hr : encList d rest with
      | error e => rw [hr] at ihr; simp at ihr ⊢; intro _; exact ihr
      | ok br => rw [hr] at ihr; simp at ihr ⊢; exact ⟨ihv, ihr⟩
end

mutual
theorem expressible_depth (d : Nat) (v : Val) (h : v.Expressible d) : d + v.depth ≤ maxDepth ∨ v.depth = 0 := by
  cases v with
  | object ps =>
    simp only [Val.Expressible] at h
    have := expressibleProps_depth (d + 1) ps h.2
    simp only [Val.depth]; left; omega
  | array vs =>
    simp only [Val.Expressible] at h
    have := expressibleList_depth (d + 1) vs h.2
    simp only [Val.depth]; left; omega
  | _ => right; simp [Val.depth]
theorem expressibleProps_depth (d : Nat) (ps : List (Bytes × Val)) (h : ExpressibleProps d ps) :
    d + depthProps ps ≤ maxDepth ∨ depthProps ps = 0 := by
  cases ps with
  | nil => right; simp [depthProps]
  | cons p rest =>
    obtain ⟨k, v⟩ := p
    simp only [ExpressibleProps] at h
    have h1 := expressible_depth d v h.2.2.1
    have h2 := expressibleProps_depth d rest h.2.2.2
    simp only [depthProps, Nat.max_def]
    split <;> omega
theorem expressibleList_depth (d : Nat) (vs : List Val) (h : ExpressibleList d vs) :
    d + depthList vs ≤ maxDepth ∨ depthList vs = 0 := by
  cases vs with
  | nil => right; simp [depthList]
  | cons v rest =>
    simp only [ExpressibleList] at h
    have h1 := expressible_depth d v h.1
    have h2 := expressibleList_depth d rest h.2
    simp only [depthList, Nat.max_def]
    split <;> omega
end

end Rml.Amf0
