/-
The staged deserializer on a COMPLETE chunk: `desChunk` is the seven stages composed (no staging);
`run_desChunk` shows the drain loop passes through it.  First half of Thm B.
-/
import Rml.Lemmas.DesRun
namespace Rml.Des
open Rml Rml.Bytes Rml.Chunk

/-- header after the csid stage -/
def afterCsid (c : Core) (fmt : Fmt) (csid : Nat) : Option (Hdr × List (Nat × Hdr)) :=
  if fmt = .f0 then some ({ csid := csid }, c.prev)
  else (mapGet csid c.prev).map fun h => (h, mapRemove csid c.prev)

/-- header and rest after the initial-timestamp stage -/
def afterIts (c : Core) (fmt : Fmt) (cur : Hdr) (b : Bytes) : Option (Hdr × Bytes) :=
  if fmt = .f3 then some (if c.pdata.isEmpty then { cur with ts := add32 cur.ts cur.field } else cur, b)
  else (take3 b).map fun (t, r) => ({ cur with ts := if fmt = .f0 then t else add32 cur.ts t, field := t }, r)

def afterLen (fmt : Fmt) (cur : Hdr) (b : Bytes) : Option (Hdr × Bytes) :=
  if fmt = .f2 ∨ fmt = .f3 then some (cur, b) else (take3 b).map fun (l, r) => ({ cur with len := l }, r)

def afterTyp (fmt : Fmt) (cur : Hdr) (b : Bytes) : Option (Hdr × Bytes) :=
  if fmt = .f2 ∨ fmt = .f3 then some (cur, b) else (take1 b).map fun (t, r) => ({ cur with typ := t }, r)

def afterMsid (fmt : Fmt) (cur : Hdr) (b : Bytes) : Option (Hdr × Bytes) :=
  if fmt ≠ .f0 then some (cur, b) else (take4le b).map fun (i, r) => ({ cur with msid := i }, r)

def afterExt (c : Core) (fmt : Fmt) (cur : Hdr) (b : Bytes) : Option (Hdr × Bytes) :=
  if cur.field < maxTs24 then some (cur, b)
  else (take4be b).map fun (e, r) =>
    ({ cur with ts := if fmt = .f0 then e else if c.pdata.isEmpty then add32 cur.ts (sub32 e maxTs24) else cur.ts }, r)

/-- the payload stage on a complete chunk -/
def afterPayload (c : Core) (fmt : Fmt) (cur : Hdr) (prev : List (Nat × Hdr)) (b : Bytes) : Option (Core × Bytes × Option Msg) :=
  if cur.len < c.pdata.length then none else
  let n := if cur.len > c.maxCs then min (cur.len - c.pdata.length) c.maxCs else cur.len
  if b.length < n then none else
  let pdata := c.pdata ++ b.take n
  let prev' := mapInsert cur.csid cur prev
  if pdata.length = cur.len then
    some ({ c with fmt := fmt, pdata := [], cur := {}, prev := prev', stage := .csid }, b.drop n,
          some { ts := cur.ts, typ := cur.typ, msid := cur.msid, data := pdata })
  else some ({ c with fmt := fmt, pdata := pdata, cur := {}, prev := prev', stage := .csid }, b.drop n, none)

/-- all seven stages on a complete chunk -/
def desChunk (c : Core) (bs : Bytes) : Option (Core × Bytes × Option Msg) :=
  match basicHdr bs with
  | none => none
  | some (fmt, csid, b1) =>
    match afterCsid c fmt csid with
    | none => none
    | some (cur0, prev0) =>
      match afterIts c fmt cur0 b1 with
      | none => none
      | some (cur1, b2) =>
        match afterLen fmt cur1 b2 with
        | none => none
        | some (cur2, b3) =>
          match afterTyp fmt cur2 b3 with
          | none => none
          | some (cur3, b4) =>
            match afterMsid fmt cur3 b4 with
            | none => none
            | some (cur4, b5) =>
              match afterExt c fmt cur4 b5 with
              | none => none
              | some (cur5, b6) => afterPayload c fmt cur5 prev0 b6

/-- the drain loop passes through a complete chunk exactly as `desChunk` says -/
theorem run_desChunk (c c' : Core) (bs rest : Bytes) (m : Option Msg) (acc : List Msg)
    (hs : c.stage = .csid) (h : desChunk c bs = some (c', rest, m)) :
    run c bs acc =
      match m with
      | none => run c' rest acc
      | some msg =>
        match honour c' msg with
        | .error e => { core := c', buf := rest, msgs := acc ++ [msg], err := some e }
        | .ok c'' => run c'' rest (acc ++ [msg]) := by
  unfold desChunk at h
  cases hb : basicHdr bs with
  | none => simp [hb] at h
  | some p0 =>
    obtain ⟨fmt, csid, b1⟩ := p0
    simp only [hb] at h
    cases h0 : afterCsid c fmt csid with
    | none => simp [h0] at h
    | some p1 =>
      obtain ⟨cur0, prev0⟩ := p1
      simp only [h0] at h
      cases h1 : afterIts c fmt cur0 b1 with
      | none => simp [h1] at h
      | some p2 =>
        obtain ⟨cur1, b2⟩ := p2
        simp only [h1] at h
        cases h2 : afterLen fmt cur1 b2 with
        | none => simp [h2] at h
        | some p3 =>
          obtain ⟨cur2, b3⟩ := p3
          simp only [h2] at h
          cases h3 : afterTyp fmt cur2 b3 with
          | none => simp [h3] at h
          | some p4 =>
            obtain ⟨cur3, b4⟩ := p4
            simp only [h3] at h
            cases h4 : afterMsid fmt cur3 b4 with
            | none => simp [h4] at h
            | some p5 =>
              obtain ⟨cur4, b5⟩ := p5
              simp only [h4] at h
              cases h5 : afterExt c fmt cur4 b5 with
              | none => simp [h5] at h
              | some p6 =>
                obtain ⟨cur5, b6⟩ := p6
                simp only [h5] at h
                -- stage 1: csid
                have s1 : stageStep c bs = .ok { c with fmt := fmt, cur := cur0, prev := prev0, stage := .its } b1 none := by
                  unfold stageStep; simp only [hs, hb]
                  unfold afterCsid at h0
                  by_cases hf : fmt = .f0
                  · simp only [hf, if_true, Option.some.injEq, Prod.mk.injEq] at h0 ⊢
                    rw [← h0.1, ← h0.2]
                  · simp only [hf, if_false] at h0 ⊢
                    cases hg : mapGet csid c.prev with
                    | none => simp [hg] at h0
                    | some hd =>
                      simp only [hg, Option.map_some, Option.some.injEq, Prod.mk.injEq] at h0 ⊢
                      rw [← h0.1, ← h0.2]
                -- stage 2: its
                have s2 : stageStep { c with fmt := fmt, cur := cur0, prev := prev0, stage := .its } b1 =
                    .ok { c with fmt := fmt, cur := cur1, prev := prev0, stage := .mlen } b2 none := by
                  unfold stageStep; simp only
                  unfold afterIts at h1
                  by_cases hf : fmt = .f3
                  · simp only [hf, if_true, Option.some.injEq, Prod.mk.injEq] at h1 ⊢
                    rw [← h1.1, ← h1.2]
                  · simp only [hf, if_false] at h1 ⊢
                    cases ht : take3 b1 with
                    | none => simp [ht] at h1
                    | some q =>
                      obtain ⟨t, r⟩ := q
                      simp only [ht, Option.map_some, Option.some.injEq, Prod.mk.injEq] at h1 ⊢
                      rw [← h1.1, ← h1.2]
                -- stage 3: mlen
                have s3 : stageStep { c with fmt := fmt, cur := cur1, prev := prev0, stage := .mlen } b2 =
                    .ok { c with fmt := fmt, cur := cur2, prev := prev0, stage := .mtyp } b3 none := by
                  unfold stageStep; simp only
                  unfold afterLen at h2
                  by_cases hf : fmt = .f2 ∨ fmt = .f3
                  · simp only [hf, if_true, Option.some.injEq, Prod.mk.injEq] at h2 ⊢
                    rw [← h2.1, ← h2.2]
                  · simp only [hf, if_false] at h2 ⊢
                    cases ht : take3 b2 with
                    | none => simp [ht] at h2
                    | some q =>
                      obtain ⟨t, r⟩ := q
                      simp only [ht, Option.map_some, Option.some.injEq, Prod.mk.injEq] at h2 ⊢
                      rw [← h2.1, ← h2.2]
                -- stage 4: mtyp
                have s4 : stageStep { c with fmt := fmt, cur := cur2, prev := prev0, stage := .mtyp } b3 =
                    .ok { c with fmt := fmt, cur := cur3, prev := prev0, stage := .msid } b4 none := by
                  unfold stageStep; simp only
                  unfold afterTyp at h3
                  by_cases hf : fmt = .f2 ∨ fmt = .f3
                  · simp only [hf, if_true, Option.some.injEq, Prod.mk.injEq] at h3 ⊢
                    rw [← h3.1, ← h3.2]
                  · simp only [hf, if_false] at h3 ⊢
                    cases ht : take1 b3 with
                    | none => simp [ht] at h3
                    | some q =>
                      obtain ⟨t, r⟩ := q
                      simp only [ht, Option.map_some, Option.some.injEq, Prod.mk.injEq] at h3 ⊢
                      rw [← h3.1, ← h3.2]
                -- stage 5: msid
                have s5 : stageStep { c with fmt := fmt, cur := cur3, prev := prev0, stage := .msid } b4 =
                    .ok { c with fmt := fmt, cur := cur4, prev := prev0, stage := .ext } b5 none := by
                  unfold stageStep; simp only
                  unfold afterMsid at h4
                  by_cases hf : fmt = .f0
                  · simp only [hf, ne_eq, not_true_eq_false, if_false] at h4 ⊢
                    cases ht : take4le b4 with
                    | none => simp [ht] at h4
                    | some q =>
                      obtain ⟨t, r⟩ := q
                      simp only [ht, Option.map_some, Option.some.injEq, Prod.mk.injEq] at h4 ⊢
                      rw [← h4.1, ← h4.2]
                  · simp only [hf, ne_eq, not_false_eq_true, if_true, Option.some.injEq, Prod.mk.injEq] at h4 ⊢
                    rw [← h4.1, ← h4.2]
                -- stage 6: ext
                have s6 : stageStep { c with fmt := fmt, cur := cur4, prev := prev0, stage := .ext } b5 =
                    .ok { c with fmt := fmt, cur := cur5, prev := prev0, stage := .payload } b6 none := by
                  unfold stageStep; simp only
                  unfold afterExt at h5
                  by_cases hf : cur4.field < maxTs24
                  · simp only [hf, if_true, Option.some.injEq, Prod.mk.injEq] at h5 ⊢
                    rw [← h5.1, ← h5.2]
                  · simp only [hf, if_false] at h5 ⊢
                    cases ht : take4be b5 with
                    | none => simp [ht] at h5
                    | some q =>
                      obtain ⟨t, r⟩ := q
                      simp only [ht, Option.map_some, Option.some.injEq, Prod.mk.injEq] at h5 ⊢
                      rw [← h5.1, ← h5.2]
                -- stage 7: payload
                have s7 : stageStep { c with fmt := fmt, cur := cur5, prev := prev0, stage := .payload } b6 = .ok c' rest m := by
                  unfold stageStep; simp only
                  unfold afterPayload at h
                  by_cases hl : cur5.len < c.pdata.length
                  · simp [hl] at h
                  · simp only [hl, if_false] at h ⊢
                    generalize hn : (if cur5.len > c.maxCs then min (cur5.len - c.pdata.length) c.maxCs else cur5.len) = n at h ⊢
                    by_cases hbl : b6.length < n
                    · simp [hbl] at h
                    · simp only [hbl, if_false] at h ⊢
                      by_cases hc : (c.pdata ++ b6.take n).length = cur5.len
                      · simp only [hc, if_true, Option.some.injEq, Prod.mk.injEq] at h ⊢
                        obtain ⟨h1', h2', h3'⟩ := h
                        rw [← h1', ← h2', ← h3']
                      · simp only [hc, if_false, Option.some.injEq, Prod.mk.injEq] at h ⊢
                        obtain ⟨h1', h2', h3'⟩ := h
                        rw [← h1', ← h2', ← h3']
                rw [run_eq, s1]; simp only
                rw [run_eq, s2]; simp only
                rw [run_eq, s3]; simp only
                rw [run_eq, s4]; simp only
                rw [run_eq, s5]; simp only
                rw [run_eq, s6]; simp only
                rw [run_eq, s7]
                cases m <;> rfl

end Rml.Des
