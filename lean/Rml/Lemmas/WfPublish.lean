/-
Message-level steps of createStream and publish (see WfSteps.lean).
-/
import Rml.Lemmas.WfSteps
namespace Rml.WfSteps
open Rml Rml.Bytes Rml.Chunk Rml.Amf0 Rml.Msgs Rml.Sess Rml.SerHist Rml.Emit Rml.Link Rml.Exchange

/-! the command dispatch, name by name -/
theorem hc_connect (s : Srv.State) (now sid tid : Nat) (obj : Val) (args : List Val) :
    Srv.handleCommand s now sid (str "connect") tid obj args = Srv.cmdConnect s tid obj := by
  unfold Srv.handleCommand; rw [if_pos rfl]
theorem hc_createStream (s : Srv.State) (now sid tid : Nat) (obj : Val) (args : List Val) :
    Srv.handleCommand s now sid (str "createStream") tid obj args = Srv.cmdCreateStream s now tid := by
  unfold Srv.handleCommand; rw [if_neg (by decide), if_neg (by decide), if_pos rfl]
theorem hc_deleteStream (s : Srv.State) (now sid tid : Nat) (obj : Val) (args : List Val) :
    Srv.handleCommand s now sid (str "deleteStream") tid obj args = .ok (Srv.cmdCloseOrDelete s args true) := by
  unfold Srv.handleCommand; rw [if_neg (by decide), if_neg (by decide), if_neg (by decide), if_pos rfl]
theorem hc_play (s : Srv.State) (now sid tid : Nat) (obj : Val) (args : List Val) :
    Srv.handleCommand s now sid (str "play") tid obj args = Srv.cmdPlay s now sid tid args := by
  unfold Srv.handleCommand; rw [if_neg (by decide), if_neg (by decide), if_neg (by decide), if_neg (by decide), if_pos rfl]
theorem hc_publish (s : Srv.State) (now sid tid : Nat) (obj : Val) (args : List Val) :
    Srv.handleCommand s now sid (str "publish") tid obj args = Srv.cmdPublish s now sid tid args := by
  unfold Srv.handleCommand
  rw [if_neg (by decide), if_neg (by decide), if_neg (by decide), if_neg (by decide), if_neg (by decide), if_pos rfl]

def createStreamCmd (c : Cli.State) : RtmpMsg := .amf0Command (str "createStream") (F64.ofU32 c.nextTxn) .null []

theorem requestStream_ok {c c1 : Cli.State} {now : Nat} {purpose : Cli.Purpose} {r : Cli.Res}
    (h : Cli.requestStream c now purpose = (c1, .ok r)) :
    ∃ p body, r = .out p ∧ c.st = .connected ∧ toPayload (createStreamCmd c) = .ok (20, body) ∧
      Emits c.ser c1.ser [(p, { ts := epoch now, typ := 20, msid := 0, data := body })] ∧
      c1 = { c with nextTxn := c.nextTxn + 1, txns := mapInsert c.nextTxn (.createStream purpose) c.txns, ser := c1.ser } := by
  unfold Cli.requestStream at h
  split at h
  · simp at h
  · rename_i hst
    simp only [ne_eq, Decidable.not_not] at hst
    simp only at h
    split at h
    · simp at h
    · rename_i s2 p hsend
      simp only [Prod.mk.injEq, Except.ok.injEq] at h
      obtain ⟨h1, h2⟩ := h
      subst h1; subst h2
      obtain ⟨typ, body, hp, he, hs⟩ := cli_send_exact hsend trivial (epoch_lt now) (by decide)
      have ht := cmd_typ hp
      subst ht
      exact ⟨p, body, rfl, hst, hp, he, by rw [hs]⟩

theorem createStreamCmd_wf (c : Cli.State) (ht : c.nextTxn < 4294967296) : C13.WF (createStreamCmd c) := by
  unfold createStreamCmd C13.WF
  exact ⟨by decide, F64.ofU32_lt _ ht, trivial, trivial⟩

def createStreamResult (tid sid : Nat) : RtmpMsg := .amf0Command (str "_result") tid .null [.number (F64.ofU32 sid)]

theorem createStreamResult_wf (tid sid : Nat) (ht : tid < 18446744073709551616) (hs : sid < 4294967296) :
    C13.WF (createStreamResult tid sid) := by
  unfold createStreamResult C13.WF
  exact ⟨by decide, ht, trivial, F64.ofU32_lt _ hs, trivial⟩

theorem be64_length (n : Nat) : (be64 n).length = 8 := by simp [be64]
theorem be16_length (n : Nat) : (be16 n).length = 2 := by simp [be16]

theorem createStreamResult_payload (tid sid : Nat) :
    ∃ body, toPayload (createStreamResult tid sid) = .ok (20, body) ∧ body.length ≤ 16777215 := by
  have h7 : ¬ ((str "_result").length > 65535) := by decide
  refine ⟨_, by simp only [createStreamResult, toPayload, encode, List.cons_append, List.nil_append, encList, encVal, h7, if_false]; rfl, ?_⟩
  simp only [List.length_append, List.length_cons, be64_length, be16_length, List.length_nil]
  have : (str "_result").length = 7 := by decide
  omega

/-- the server handling `createStream` -/
theorem srv_createStream (v : Srv.State) (now : Nat) (p : Msg) (c : Cli.State) (hpos : 1 ≤ v.ser.maxCs) :
    ∃ v2 pk body, Srv.handleMessage v now p (createStreamCmd c) = .ok (v2, [.out pk]) ∧
      toPayload (createStreamResult (F64.ofU32 c.nextTxn) v.nextStream) = .ok (20, body) ∧
      Emits v.ser v2.ser [(pk, { ts := epoch now, typ := 20, msid := 0, data := body })] ∧
      v2 = { v with nextStream := v.nextStream + 1, streams := mapInsert v.nextStream .created v.streams, ser := v2.ser } := by
  obtain ⟨body, hp, hl⟩ := createStreamResult_payload (F64.ofU32 c.nextTxn) v.nextStream
  obtain ⟨s2, pk, hsend⟩ := srv_send_total
    { v with nextStream := v.nextStream + 1, streams := mapInsert v.nextStream .created v.streams } hpos hp hl (epoch now) 0 false false
  obtain ⟨typ, body', hp', he, hs⟩ := srv_send_exact hsend trivial (epoch_lt now) (by decide)
  rw [hp] at hp'
  simp only [Except.ok.injEq, Prod.mk.injEq] at hp'
  obtain ⟨rfl, rfl⟩ := hp'
  refine ⟨s2, pk, body, ?_, hp, he, by rw [hs]⟩
  simp only [createStreamCmd, Srv.handleMessage, hc_createStream]
  simp only [Srv.cmdCreateStream, Srv.commandMsg]
  have : Srv.send { v with nextStream := v.nextStream + 1, streams := mapInsert v.nextStream .created v.streams }
      (.amf0Command (str "_result") (F64.ofU32 c.nextTxn) .null [.number (F64.ofU32 v.nextStream)]) (epoch now) 0 = .ok (s2, pk) := hsend
  rw [this]

def typeStr : Cli.PublishType → Bytes
  | .live => str "live" | .record => str "record" | .append => str "append"

def modeOf : Cli.PublishType → Srv.PublishMode
  | .live => .live | .record => .record | .append => .append

def publishCmd (key : Bytes) (t : Cli.PublishType) : RtmpMsg :=
  .amf0Command (str "publish") 0 .null [.str key, .str (typeStr t)]

theorem publishCmd_wf (key : Bytes) (t : Cli.PublishType) (hk : Utf8.valid key = true) : C13.WF (publishCmd key t) := by
  unfold publishCmd C13.WF
  refine ⟨by decide, by decide, trivial, hk, ?_, trivial⟩
  cases t <;> (simp only [Val.WF, typeStr]; decide)

theorem publishCmd_payload (key : Bytes) (t : Cli.PublishType) (hk : key.length ≤ 65535) :
    ∃ body, toPayload (publishCmd key t) = .ok (20, body) ∧ body.length ≤ 16777215 := by
  have h7 : ¬ ((str "publish").length > 65535) := by decide
  have hk' : ¬ (key.length > 65535) := by omega
  have ht : ¬ ((typeStr t).length > 65535) := by cases t <;> decide
  have htl : (typeStr t).length ≤ 6 := by cases t <;> decide
  refine ⟨_, by simp only [publishCmd, toPayload, encode, List.cons_append, List.nil_append, encList, encVal, h7, hk', ht, if_false]; rfl, ?_⟩
  simp only [List.length_append, List.length_cons, be64_length, be16_length, List.length_nil]
  have : (str "publish").length = 7 := by decide
  omega

/-- the client handling the `createStream` result while a publish purpose is outstanding -/
theorem cli_createStreamResult_publish (c : Cli.State) (now : Nat) (p : Msg) (k sid : Nat) (key : Bytes) (t : Cli.PublishType)
    (hk : k < 4294967296) (hsid : sid < 4294967296)
    (htx : mapGet k c.txns = some (.createStream (.publish key t))) (hkey : key.length ≤ 65535) (hpos : 1 ≤ c.ser.maxCs) :
    ∃ c2 pk body, Cli.handleMessage c now p (createStreamResult (F64.ofU32 k) sid) = (c2, .ok [.out pk]) ∧
      toPayload (publishCmd key t) = .ok (20, body) ∧
      Emits c.ser c2.ser [(pk, { ts := epoch now, typ := 20, msid := sid, data := body })] ∧
      c2 = { c with txns := mapRemove k c.txns, activeStream := some sid, st := .publishRequested, ser := c2.ser } := by
  cases t
  all_goals
  obtain ⟨body, hp, hl⟩ := publishCmd_payload key _ hkey
  obtain ⟨s2, pk, hsend⟩ := cli_send_total
    { c with txns := mapRemove k c.txns, activeStream := some sid, st := .publishRequested } hpos hp hl (epoch now) sid false
  obtain ⟨typ, body', hp', he, hs⟩ := cli_send_exact hsend trivial (epoch_lt now) hsid
  rw [hp] at hp'
  simp only [Except.ok.injEq, Prod.mk.injEq] at hp'
  obtain ⟨rfl, rfl⟩ := hp'
  refine ⟨s2, pk, body, ?_, hp, he, by rw [hs]⟩
  simp only [createStreamResult, Cli.handleMessage, if_true, Cli.handleResult, F64.toU32_ofU32 k hk, htx,
    F64.toU32_ofU32 sid hsid]
  first
    | (have : Cli.send { c with txns := mapRemove k c.txns, activeStream := some sid, st := .publishRequested }
        (.amf0Command (str "publish") 0 .null [.str key, .str (str "live")]) (epoch now) sid = .ok (s2, pk) := hsend
       rw [this])
    | (have : Cli.send { c with txns := mapRemove k c.txns, activeStream := some sid, st := .publishRequested }
        (.amf0Command (str "publish") 0 .null [.str key, .str (str "record")]) (epoch now) sid = .ok (s2, pk) := hsend
       rw [this])
    | (have : Cli.send { c with txns := mapRemove k c.txns, activeStream := some sid, st := .publishRequested }
        (.amf0Command (str "publish") 0 .null [.str key, .str (str "append")]) (epoch now) sid = .ok (s2, pk) := hsend
       rw [this])

/-- the server handling exactly that `publish` command on a connected session -/
theorem srv_publish (v : Srv.State) (now : Nat) (p : Msg) (key : Bytes) (t : Cli.PublishType) (app : Bytes)
    (hc : v.connected = true) (ha : v.app = some app) :
    Srv.handleMessage v now p (publishCmd key t) =
      .ok ({ v with nextReq := v.nextReq + 1, reqs := mapInsert v.nextReq (.publish key (modeOf t) p.msid) v.reqs },
           [.ev (.publishRequested v.nextReq app key (modeOf t))]) := by
  simp only [publishCmd, Srv.handleMessage, hc_publish]
  simp only [Srv.cmdPublish, hc, ha, not_true_eq_false, if_false]
  cases t
  · have : Srv.lower (typeStr .live) = str "live" := by decide
    simp only [this, if_true, modeOf]
  · have : Srv.lower (typeStr .record) = str "record" := by decide
    simp only [this, modeOf]
    rw [if_neg (by decide), if_neg (by decide)]
    simp only [if_true]
  · have : Srv.lower (typeStr .append) = str "append" := by decide
    simp only [this, modeOf]
    rw [if_neg (by decide)]
    simp only [if_true]

/-! the client's command dispatch, name by name -/
theorem chm_result (c : Cli.State) (now : Nat) (p : Msg) (tid : Nat) (obj : Val) (args : List Val) :
    Cli.handleMessage c now p (.amf0Command (str "_result") tid obj args) =
      match Cli.handleResult c now tid obj args with
      | .ok (s', rs) => (s', .ok rs)
      | .error e => (Cli.handleResultErrState c tid args, .error e) := by
  unfold Cli.handleMessage; dsimp only; rw [if_pos rfl]
  cases Cli.handleResult c now tid obj args <;> rfl

theorem chm_onStatus (c : Cli.State) (now : Nat) (p : Msg) (tid : Nat) (obj : Val) (args : List Val) :
    Cli.handleMessage c now p (.amf0Command (str "onStatus") tid obj args) =
      match Cli.handleOnStatus c args with
      | .ok (s', rs) => (s', .ok rs)
      | .error e => (c, .error e) := by
  unfold Cli.handleMessage; dsimp only; rw [if_neg (by decide), if_neg (by decide), if_pos rfl]
  cases Cli.handleOnStatus c args <;> rfl

/-! ### accepting the publish request -/

def publishStatus (key : Bytes) : RtmpMsg :=
  .amf0Command (str "onStatus") 0 .null [statusObject (str "status") (str "NetStream.Publish.Start")
    (str "Successfully started publishing on stream key " ++ key)]

def streamBegin (sid : Nat) : RtmpMsg := .userControl .streamBegin (some sid) none none

theorem uc_typ {ev : UcEvent} {a b c : Option Nat} {typ : Nat} {body : Bytes}
    (h : toPayload (.userControl ev a b c) = .ok (typ, body)) : typ = 4 := by
  simp only [toPayload] at h
  split at h
  · simp only [Except.ok.injEq, Prod.mk.injEq] at h; exact h.1.symm
  · simp at h

theorem acceptPublish_ok {v v2 : Srv.State} {now id : Nat} {key : Bytes} {mode : Srv.PublishMode} {sid : Nat} {rs : List Srv.Res}
    (hreq : mapGet id v.reqs = some (.publish key mode sid)) (hsid : sid < 4294967296)
    (h : Srv.acceptRequest v now id = (v2, .ok rs)) :
    ∃ p1 p2 b1 b2, rs = [.out p1, .out p2] ∧ toPayload (streamBegin sid) = .ok (4, b1) ∧
      toPayload (publishStatus key) = .ok (20, b2) ∧
      Emits v.ser v2.ser [(p1, { ts := epoch now, typ := 4, msid := sid, data := b1 }),
                          (p2, { ts := epoch now, typ := 20, msid := sid, data := b2 })] ∧
      (∃ st, mapGet sid v.streams = some st) ∧
      v2 = { v with reqs := mapRemove id v.reqs, streams := mapInsert sid (.publishing key mode) v.streams, ser := v2.ser } := by
  unfold Srv.acceptRequest at h
  simp only [hreq] at h
  split at h
  · simp at h
  · rename_i st hst
    split at h
    · simp at h
    · rename_i s2 p1 hsend1
      split at h
      · simp at h
      · rename_i s3 p2 hsend2
        simp only [Prod.mk.injEq, Except.ok.injEq] at h
        obtain ⟨h1, h2⟩ := h
        subst h1; subst h2
        obtain ⟨t1, b1, hp1, he1, hs1⟩ := srv_send_exact hsend1 trivial (epoch_lt now) hsid
        obtain ⟨t2, b2, hp2, he2, hs2⟩ := srv_send_exact hsend2 trivial (epoch_lt now) hsid
        have ht1 := uc_typ hp1
        have ht2 := cmd_typ hp2
        subst ht1; subst ht2
        refine ⟨p1, p2, b1, b2, rfl, hp1, hp2, he1.trans he2, ⟨st, hst⟩, ?_⟩
        rw [hs2, hs1]

theorem publishStatus_wf (key : Bytes) (hk : Utf8.valid key = true) : C13.WF (publishStatus key) := by
  unfold publishStatus C13.WF statusObject
  have hd : Utf8.valid (str "Successfully started publishing on stream key " ++ key) = true :=
    Utf8.valid_append _ _ (by decide) hk
  refine ⟨by decide, by decide, trivial, ?_⟩
  simp only [WFList, Val.WF, WFProps, hd, and_true, true_and, List.map]
  exact ⟨⟨by decide, by decide, by decide, by decide, by decide⟩, by decide⟩

/-- the client handling that status while its publish request is outstanding -/
theorem cli_publishStatus (c : Cli.State) (now : Nat) (p : Msg) (key : Bytes) (hst : c.st = .publishRequested) :
    Cli.handleMessage c now p (publishStatus key) = ({ c with st := .publishing }, .ok [.ev .publishAccepted]) := by
  unfold publishStatus statusObject
  rw [chm_onStatus]
  unfold Cli.handleOnStatus
  dsimp only [propGet]
  rw [if_neg (by decide), if_pos rfl]
  dsimp only
  rw [if_neg (by decide), if_pos rfl, if_pos hst]

/-! ### stopping -/

def deleteStreamCmd (sid : Nat) : RtmpMsg := .amf0Command (str "deleteStream") 0 .null [.number (F64.ofU32 sid)]

theorem deleteStreamCmd_wf (sid : Nat) (hs : sid < 4294967296) : C13.WF (deleteStreamCmd sid) := by
  unfold deleteStreamCmd C13.WF
  exact ⟨by decide, by decide, trivial, F64.ofU32_lt _ hs, trivial⟩

/-- `stop_publishing` / `stop_playback` returned Ok on an active stream: what it put on the wire -/
theorem stop_ok {c c1 : Cli.State} {now : Nat} {play : Bool} {sid : Nat} {rs : List Cli.Res}
    (hact : if play then (c.st = .playing ∨ c.st = .playRequested) else (c.st = .publishing ∨ c.st = .publishRequested))
    (ha : c.activeStream = some sid) (hsid : sid < 4294967296)
    (h : Cli.stop c now play = (c1, .ok rs)) :
    ∃ p body, rs = [.out p] ∧ toPayload (deleteStreamCmd sid) = .ok (20, body) ∧
      Emits c.ser c1.ser [(p, { ts := epoch now, typ := 20, msid := sid, data := body })] ∧
      c1 = { c with st := .connected, activeStream := none, ser := c1.ser } := by
  unfold Cli.stop at h
  simp only [hact, not_true_eq_false, if_false, ha] at h
  split at h
  · simp at h
  · rename_i s2 p hsend
    simp only [Prod.mk.injEq, Except.ok.injEq] at h
    obtain ⟨h1, h2⟩ := h
    subst h1; subst h2
    obtain ⟨typ, body, hp, he, hs⟩ := cli_send_exact hsend trivial (epoch_lt now) hsid
    have ht := cmd_typ hp
    subst ht
    exact ⟨p, body, rfl, hp, he, by rw [hs]⟩

/-- the server handling that `deleteStream` for a stream it holds -/
theorem srv_deleteStream (v : Srv.State) (now : Nat) (p : Msg) (sid : Nat) (app : Bytes) (st : Srv.StreamState)
    (hsid : sid < 4294967296) (hc : v.connected = true) (ha : v.app = some app) (hs : mapGet sid v.streams = some st) :
    Srv.handleMessage v now p (deleteStreamCmd sid) =
      .ok ({ v with streams := mapRemove sid v.streams }, Srv.finishedEvents app st) := by
  simp only [deleteStreamCmd, Srv.handleMessage, hc_deleteStream]
  simp only [Srv.cmdCloseOrDelete, hc, ha, not_true_eq_false, if_false, F64.toU32_ofU32 sid hsid, hs, if_true]

end Rml.WfSteps
