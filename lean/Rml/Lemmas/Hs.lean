import Rml.Model.Handshake
namespace Rml.Hs
open Rml

theorem putAt_length (p d : Bytes) (off : Nat) (h : off + d.length ≤ p.length) :
    (putAt p off d).length = p.length := by
  unfold putAt
  simp only [List.length_append, List.length_take, List.length_drop]
  omega

theorem drop_pre (pre rest : Bytes) (n : Nat) (h : pre.length = n) : (pre ++ rest).drop n = rest := by
  subst h; simp
theorem take_pre (pre rest : Bytes) (n : Nat) (h : pre.length = n) : (pre ++ rest).take n = pre := by
  subst h; simp

theorem digestAt_putAt (p d : Bytes) (off : Nat) (hd : d.length = digestLen) (h : off ≤ p.length) :
    digestAt (putAt p off d) off = d := by
  unfold digestAt putAt
  have h1 : (p.take off).length = off := by simp only [List.length_take]; omega
  rw [List.append_assoc, drop_pre _ _ _ h1, take_pre _ _ _ hd]

theorem withoutDigest_putAt (p d : Bytes) (off : Nat) (hd : d.length = digestLen) (h : off + digestLen ≤ p.length) :
    withoutDigest (putAt p off d) off = withoutDigest p off := by
  unfold withoutDigest putAt
  have h1 : (p.take off).length = off := by simp only [List.length_take]; omega
  have h2 : (p.take off ++ d).length = off + digestLen := by simp only [List.length_append, h1, hd]
  rw [List.append_assoc, take_pre _ _ _ h1, ← List.append_assoc, drop_pre _ _ _ h2, hd]

theorem at_putAt_lt (p d : Bytes) (off i : Nat) (hi : i < off) (h : off ≤ p.length) :
    at_ (putAt p off d) i = at_ p i := by
  unfold at_ putAt
  have h1 : (p.take off).length = off := by simp only [List.length_take]; omega
  rw [List.append_assoc]
  simp only [List.getD_eq_getElem?_getD]
  rw [List.getElem?_append_left (by omega), List.getElem?_take_of_lt hi]

end Rml.Hs
