/-
What a session does to its serializer: `Emits ser ser' xs` — the packets `xs` (each with the message it
carries) are exactly what a well-formed serializer history (SerHist.HistWF) returns when run from `ser`,
and it ends in `ser'`.  Compositional (nil / append / one message / one chunk-size change), so that the
session models can be walked function by function; Thm A then applies to everything a session returned.
-/
import Rml.Lemmas.SerHist
import Rml.Model.SessionCommon
namespace Rml.Emit
open Rml Rml.Bytes Rml.Chunk Rml.SerHist Rml.SerSpec Rml.Msgs Rml.Sess
open Rml.C19 (SerOp applyOp)

theorem runAll_append (a b : List SerOp) : ∀ s, runAll s (a ++ b) = runAll (runAll s a) b := by
  induction a with
  | nil => intro s; rfl
  | cons op a ih => intro s; exact ih (after s op)

theorem trace_append (a b : List SerOp) : ∀ s, trace s (a ++ b) = trace s a ++ trace (runAll s a) b := by
  induction a with
  | nil => intro s; rfl
  | cons op a ih =>
    intro s
    simp only [List.cons_append, trace, runAll]
    cases applyOp s op with
    | ok r => simp [ih]
    | err e => simp [ih]
    | hang => simp [ih]

theorem histWF_append (a b : List SerOp) : ∀ s, HistWF s a → HistWF (runAll s a) b → HistWF s (a ++ b) := by
  induction a with
  | nil => intro s _ hb; exact hb
  | cons op a ih => intro s ha hb; exact ⟨ha.1, ih (after s op) ha.2 hb⟩

def Emits (ser ser' : Ser.State) (xs : List (Ser.Packet × Msg)) : Prop :=
  ∃ ops, HistWF ser ops ∧ trace ser ops = xs ∧ runAll ser ops = ser'

theorem Emits.nil (ser : Ser.State) : Emits ser ser [] := ⟨[], trivial, rfl, rfl⟩

theorem Emits.trans {a b c : Ser.State} {xs ys : List (Ser.Packet × Msg)} (h1 : Emits a b xs) (h2 : Emits b c ys) :
    Emits a c (xs ++ ys) := by
  obtain ⟨o1, w1, t1, r1⟩ := h1
  obtain ⟨o2, w2, t2, r2⟩ := h2
  refine ⟨o1 ++ o2, histWF_append o1 o2 a w1 (by rw [r1]; exact w2), ?_, ?_⟩
  · rw [trace_append, r1, t1, t2]
  · rw [runAll_append, r1, r2]

theorem Emits.msg {ser ser' : Ser.State} {m : Msg} {f d : Bool} {p : Ser.Packet}
    (h : Ser.serialize ser m f d = .ok (ser', p)) (hts : m.ts < 4294967296) (hmsid : m.msid < 4294967296)
    (htyp : m.typ < 256) (hne : m.typ ≠ 1) : Emits ser ser' [(p, m)] := by
  refine ⟨[.msg m f d], ⟨⟨hts, hmsid, htyp, fun h => absurd h hne⟩, trivial⟩, ?_, ?_⟩
  · simp [trace, applyOp, h, msgOf]
  · simp [runAll, after, applyOp, h]

theorem Emits.setcs {ser ser' : Ser.State} {n ts : Nat} {p : Ser.Packet}
    (h : Ser.setMaxChunkSize ser n ts = .ok (ser', p)) (hts : ts < 4294967296) :
    Emits ser ser' [(p, { ts := ts, typ := 1, msid := 0, data := be32 n })] := by
  refine ⟨[.setcs n ts], ⟨hts, trivial⟩, ?_, ?_⟩
  · simp [trace, applyOp, h, msgOf]
  · simp [runAll, after, applyOp, h]

/-- Thm A for everything emitted since the serializer was created -/
theorem Emits.reads {ser : Ser.State} {xs : List (Ser.Packet × Msg)} (h : Emits {} ser xs) (mask : List Bool) :
    Spec.Chunk.decodeSeq (wire (keepSel mask xs)) = some (msgs (keepSel mask xs)) := by
  obtain ⟨ops, w, t, _⟩ := h
  rw [← t]
  obtain ⟨sE, hr, _⟩ := hist_reads ops {} {} mask SR_init w
  exact reads_decodeSeq hr

/-- messages a session may hand to `sendMsg`: every variant except a raw SetChunkSize (sessions use the
    serializer's setter) and pass-through messages of unknown type -/
def Sendable : RtmpMsg → Prop
  | .unknown _ _ => False
  | .setChunkSize _ => False
  | _ => True

theorem toPayload_typ {m : RtmpMsg} {typ : Nat} {body : Bytes} (hs : Sendable m) (h : toPayload m = .ok (typ, body)) :
    typ < 256 ∧ typ ≠ 1 := by
  cases m with
  | unknown t d => exact absurd hs id
  | setChunkSize n => exact absurd hs id
  | abort s => simp only [toPayload, Except.ok.injEq, Prod.mk.injEq] at h; omega
  | ack s => simp only [toPayload, Except.ok.injEq, Prod.mk.injEq] at h; omega
  | amf0Command name tid obj args =>
    simp only [toPayload] at h
    split at h
    · simp only [Except.ok.injEq, Prod.mk.injEq] at h; omega
    · simp at h
  | amf0Data vals =>
    simp only [toPayload] at h
    split at h
    · simp only [Except.ok.injEq, Prod.mk.injEq] at h; omega
    · simp at h
  | audio d => simp only [toPayload, Except.ok.injEq, Prod.mk.injEq] at h; omega
  | setPeerBandwidth n l => simp only [toPayload, Except.ok.injEq, Prod.mk.injEq] at h; omega
  | userControl ev s l t =>
    simp only [toPayload] at h
    split at h
    · simp only [Except.ok.injEq, Prod.mk.injEq] at h; omega
    · simp at h
  | video d => simp only [toPayload, Except.ok.injEq, Prod.mk.injEq] at h; omega
  | windowAck n => simp only [toPayload, Except.ok.injEq, Prod.mk.injEq] at h; omega

/-- the message a packet carries comes from a sendable RTMP message -/
def FromRtmp (m : Msg) : Prop := ∃ rm, Sendable rm ∧ toPayload rm = .ok (m.typ, m.data)

/-- `sendMsg`: one message through the serializer -/
theorem sendMsg_emits {ser ser' : Ser.State} {m : RtmpMsg} {ts msid : Nat} {f d : Bool} {p : Ser.Packet}
    (h : sendMsg ser m ts msid f d = .ok (ser', p)) (hs : Sendable m) (hts : ts < 4294967296)
    (hmsid : msid < 4294967296) :
    ∃ x : Msg, Emits ser ser' [(p, x)] ∧ FromRtmp x ∧ x.ts = ts ∧ x.msid = msid := by
  unfold sendMsg at h
  cases hp : toPayload m with
  | error e => simp [hp] at h
  | ok tb =>
    obtain ⟨typ, body⟩ := tb
    simp only [hp] at h
    cases hser : Ser.serialize ser { ts := ts, typ := typ, msid := msid, data := body } f d with
    | err e => simp [hser] at h
    | hang => simp [hser] at h
    | ok r =>
      simp only [hser, Except.ok.injEq] at h
      subst h
      obtain ⟨h1, h2⟩ := toPayload_typ hs hp
      exact ⟨_, Emits.msg hser hts hmsid h1 h2, ⟨m, hs, hp⟩, rfl, rfl⟩

end Rml.Emit
