import Rml.Model.Amf0Ghost
import Rml.Lemmas.Bytes
namespace Rml.Amf0
open Rml Rml.Bytes

/-- erasing the ghost counters gives back the decoder model -/
theorem erase_all (f : Nat) :
    (∀ d bs, (readValueG f d bs).1 = readValue f d bs) ∧
    (∀ d bs acc, (readPropsG f d bs acc).1 = readProps f d bs acc) ∧
    (∀ d c bs acc, (readArrG f d c bs acc).1 = readArr f d c bs acc) := by
  induction f with
  | zero => simp [readValueG, readValue, readPropsG, readProps, readArrG, readArr]
  | succ f ih =>
    obtain ⟨ihv, ihp, iha⟩ := ih
    refine ⟨?_, ?_, ?_⟩
    · intro d bs
      cases bs with
      | nil => simp [readValueG, readValue]
      | cons m rest =>
        simp only [readValueG, readValue]
        by_cases h9 : m = 9
        · simp only [h9, if_true]
        simp only [h9, if_false]
        by_cases hdeep : (m = 3 ∨ m = 8 ∨ m = 10) ∧ d ≥ maxDepth
        · simp only [hdeep, and_self, if_true]
        simp only [hdeep, if_false]
        by_cases h1 : m = 1
        · simp only [h1, if_true]; cases take1 rest with
          | none => rfl
          | some p => rfl
        simp only [h1, if_false]
        by_cases h5 : m = 5
        · simp only [h5, if_true]
        simp only [h5, if_false]
        by_cases h6 : m = 6
        · simp only [h6, if_true]
        simp only [h6, if_false]
        by_cases h0 : m = 0
        · simp only [h0, if_true]; cases takeN 8 rest with
          | none => rfl
          | some p => rfl
        simp only [h0, if_false]
        by_cases h3 : m = 3
        · simp only [h3, if_true]
          rw [← ihp (d + 1) rest []]
          rcases readPropsG f (d + 1) rest [] with ⟨res, g⟩
          cases res with
          | error e => rfl
          | ok p => rfl
        simp only [h3, if_false]
        by_cases h8 : m = 8
        · simp only [h8, if_true]; cases takeN 4 rest with
          | none => rfl
          | some p =>
            simp only
            rw [← ihp (d + 1) p.2 []]
            rcases readPropsG f (d + 1) p.2 [] with ⟨res, g⟩
            cases res with
            | error e => rfl
            | ok p => rfl
        simp only [h8, if_false]
        by_cases h2 : m = 2
        · simp only [h2, if_true]; cases takeN 2 rest with
          | none => rfl
          | some p =>
            simp only
            cases takeN (beVal p.1 0) p.2 with
            | none => rfl
            | some q =>
              simp only
              by_cases hv : Utf8.valid q.1 = true
              · simp only [hv, if_true]
              · simp only [hv, if_false]; rfl
        simp only [h2, if_false]
        by_cases h10 : m = 10
        · simp only [h10, if_true]; cases takeN 4 rest with
          | none => rfl
          | some p =>
            simp only
            rw [← iha (d + 1) (beVal p.1 0) p.2 []]
            rcases readArrG f (d + 1) (beVal p.1 0) p.2 [] with ⟨res, g⟩
            cases res with
            | error e => rfl
            | ok p => rfl
        simp only [h10, if_false]
    · intro d bs acc
      simp only [readPropsG, readProps]
      cases takeN 2 bs with
      | none => rfl
      | some p =>
        simp only
        by_cases hz : beVal p.1 0 = 0
        · simp only [hz, if_true]
          cases take1 p.2 with
          | none => rfl
          | some q =>
            simp only
            by_cases hq : q.1 = 9
            · simp only [hq, if_true]
            · simp only [hq, if_false]
        · simp only [hz, if_false]
          cases takeN (beVal p.1 0) p.2 with
          | none => rfl
          | some q =>
            simp only
            by_cases hv : Utf8.valid q.1 = true
            · simp only [hv, if_true]
              rw [← ihv d q.2]
              rcases readValueG f d q.2 with ⟨res, g⟩
              cases res with
              | error e => rfl
              | ok r =>
                obtain ⟨o, r''⟩ := r
                cases o with
                | none => rfl
                | some v =>
                  simp only
                  rw [← ihp d r'' (insertProp q.1 v acc)]
            · simp only [hv, if_false]; rfl
    · intro d c bs acc
      cases c with
      | zero => simp [readArrG, readArr]
      | succ c =>
        simp only [readArrG, readArr]
        rw [← ihv d bs]
        rcases readValueG f d bs with ⟨res, g⟩
        cases res with
        | error e => rfl
        | ok r =>
          obtain ⟨o, r'⟩ := r
          cases o with
          | none => rfl
          | some v =>
            simp only
            rw [← iha d c r' (acc ++ [v])]

end Rml.Amf0

namespace Rml.Amf0
open Rml Rml.Bytes

theorem takeN_some {n : Nat} {bs x r : Bytes} (h : takeN n bs = some (x, r)) :
    x.length = n ∧ r.length + n = bs.length := by
  unfold takeN at h
  split at h
  · contradiction
  · simp only [Option.some.injEq, Prod.mk.injEq] at h
    obtain ⟨rfl, rfl⟩ := h
    simp only [List.length_take, List.length_drop]; omega

theorem take1_some {bs r : Bytes} {x : UInt8} (h : take1 bs = some (x, r)) : r.length + 1 = bs.length := by
  cases bs with
  | nil => simp [take1] at h
  | cons y ys => simp only [take1, Option.some.injEq, Prod.mk.injEq] at h; obtain ⟨_, rfl⟩ := h; simp

theorem beVal_two (l : Bytes) (h : l.length = 2) : beVal l 0 ≤ 65535 := by
  match l, h with
  | [a, b], _ =>
    simp only [beVal]
    have := a.toNat_lt; have := b.toNat_lt; omega

/-- 65535, kept behind a definition so that `simp` does not try to evaluate arithmetic on it -/
def u16Max : Nat := 65535
theorem u16Max_eq : u16Max = 65535 := rfl

/-- post-condition of a reader: bounded recursion depth; on success the ghost allocation is paid for
    by consumed input; on failure it is not a fuel failure and allocation exceeds the input by at most
    one u16-declared buffer -/
def Post {α : Type} (bs : Bytes) (rem : α → Bytes) (x : Except DecErr α × Ghost) : Prop :=
  x.2.peak ≤ maxDepth ∧
  match x.1 with
  | .ok a => x.2.alloc + (rem a).length ≤ bs.length
  | .error e => e ≠ .fuel ∧ x.2.alloc ≤ bs.length + u16Max

theorem bounds_value_step (f : Nat)
    (ihp : ∀ d bs acc, d ≤ maxDepth → bs.length + 1 ≤ f → Post bs (fun a => a.2) (readPropsG f d bs acc))
    (iha : ∀ d c bs acc, d ≤ maxDepth → bs.length + 2 ≤ f → Post bs (fun a => a.2) (readArrG f d c bs acc)) :
    ∀ d bs, d ≤ maxDepth → bs.length + 1 ≤ f + 1 →
      Post bs (fun a => a.2) (readValueG (f + 1) d bs) ∧
      (∀ v r, (readValueG (f + 1) d bs).1 = .ok (some v, r) → r.length < bs.length) := by
  have hu := u16Max_eq
  intro d bs hd hf
  cases bs with
  | nil => simp [readValueG, Post, hd]
  | cons m rest =>
    simp only [List.length_cons] at hf
    simp only [readValueG]
    by_cases h9 : m = 9
    · simp [h9, Post, hd]
    simp only [h9, if_false]
    by_cases hdeep : (m = 3 ∨ m = 8 ∨ m = 10) ∧ d ≥ maxDepth
    · simp [hdeep, Post, hd]
    simp only [hdeep, if_false]
    by_cases h1 : m = 1
    · simp only [h1, if_true]; cases ht : take1 rest with
      | none => simp [Post, hd]
      | some p =>
        obtain ⟨x, r⟩ := p
        have := take1_some ht
        simp [Post, hd]; omega
    simp only [h1, if_false]
    by_cases h5 : m = 5
    · simp [h5, Post, hd] <;> omega
    simp only [h5, if_false]
    by_cases h6 : m = 6
    · simp [h6, Post, hd] <;> omega
    simp only [h6, if_false]
    by_cases h0 : m = 0
    · simp only [h0, if_true]; cases ht : takeN 8 rest with
      | none => simp [Post, hd]
      | some p =>
        obtain ⟨x, r⟩ := p
        have := takeN_some ht
        simp [Post, hd]; omega
    simp only [h0, if_false]
    have hdlt : d < maxDepth ∨ ¬ (m = 3 ∨ m = 8 ∨ m = 10) := by
      by_cases hm : (m = 3 ∨ m = 8 ∨ m = 10)
      · left; exact Nat.lt_of_not_ge (fun hge => hdeep ⟨hm, hge⟩)
      · right; exact hm
    by_cases h3 : m = 3
    · simp only [h3, if_true]
      have hdl : d < maxDepth := by
        rcases hdlt with h | h
        · exact h
        · exact absurd (Or.inl h3) h
      have hp := ihp (d + 1) rest [] (by omega) (by omega)
      rcases hg : readPropsG f (d + 1) rest [] with ⟨res, g⟩
      rw [hg] at hp
      cases res with
      | error e => simp [Post] at hp ⊢; exact ⟨by omega, hp.2.1, by omega⟩
      | ok p => obtain ⟨v, r⟩ := p; simp [Post] at hp ⊢; omega
    simp only [h3, if_false]
    by_cases h8 : m = 8
    · simp only [h8, if_true]
      have hdl : d < maxDepth := by
        rcases hdlt with h | h
        · exact h
        · exact absurd (Or.inr (Or.inl h8)) h
      cases ht : takeN 4 rest with
      | none => simp [Post, hd]
      | some p =>
        obtain ⟨c4, r4⟩ := p
        have := takeN_some ht
        simp only
        have hp := ihp (d + 1) r4 [] (by omega) (by omega)
        rcases hg : readPropsG f (d + 1) r4 [] with ⟨res, g⟩
        rw [hg] at hp
        cases res with
        | error e => simp [Post] at hp ⊢; exact ⟨by omega, hp.2.1, by omega⟩
        | ok p => obtain ⟨v, r⟩ := p; simp [Post] at hp ⊢; omega
    simp only [h8, if_false]
    by_cases h2 : m = 2
    · simp only [h2, if_true]; cases ht : takeN 2 rest with
      | none => simp [Post, hd]
      | some p =>
        obtain ⟨l, r2⟩ := p
        have h2' := takeN_some ht
        have hl := beVal_two l h2'.1
        simp only
        cases ht2 : takeN (beVal l 0) r2 with
        | none => simp [Post, hd]; omega
        | some q =>
          obtain ⟨s, r3⟩ := q
          have h3' := takeN_some ht2
          simp only
          by_cases hv : Utf8.valid s = true
          · simp [hv, Post, hd]; omega
          · simp [hv, Post, hd]; omega
    simp only [h2, if_false]
    by_cases h10 : m = 10
    · simp only [h10, if_true]
      have hdl : d < maxDepth := by
        rcases hdlt with h | h
        · exact h
        · exact absurd (Or.inr (Or.inr h10)) h
      cases ht : takeN 4 rest with
      | none => simp [Post, hd]
      | some p =>
        obtain ⟨c4, r4⟩ := p
        have := takeN_some ht
        simp only
        have hp := iha (d + 1) (beVal c4 0) r4 [] (by omega) (by omega)
        rcases hg : readArrG f (d + 1) (beVal c4 0) r4 [] with ⟨res, g⟩
        rw [hg] at hp
        cases res with
        | error e => simp [Post] at hp ⊢; exact ⟨by omega, hp.2.1, by omega⟩
        | ok p => obtain ⟨v, r⟩ := p; simp [Post] at hp ⊢; omega
    simp [h10, Post, hd]

theorem bounds_props_step (f : Nat)
    (ihv : ∀ d bs, d ≤ maxDepth → bs.length + 1 ≤ f →
      Post bs (fun a => a.2) (readValueG f d bs) ∧
      (∀ v r, (readValueG f d bs).1 = .ok (some v, r) → r.length < bs.length))
    (ihp : ∀ d bs acc, d ≤ maxDepth → bs.length + 1 ≤ f → Post bs (fun a => a.2) (readPropsG f d bs acc)) :
    ∀ d bs acc, d ≤ maxDepth → bs.length + 1 ≤ f + 1 → Post bs (fun a => a.2) (readPropsG (f + 1) d bs acc) := by
  have hu := u16Max_eq
  intro d bs acc hd hf
  simp only [readPropsG]
  cases ht : takeN 2 bs with
  | none => simp [Post]
  | some p =>
    obtain ⟨l, r2⟩ := p
    have h2' := takeN_some ht
    have hl := beVal_two l h2'.1
    simp only
    by_cases hz : beVal l 0 = 0
    · simp only [hz, if_true]
      cases ht1 : take1 r2 with
      | none => simp [Post]
      | some q =>
        obtain ⟨x, r3⟩ := q
        have := take1_some ht1
        simp only
        by_cases hq : x = 9
        · simp [hq, Post]; omega
        · simp [hq, Post]
    · simp only [hz, if_false]
      cases ht2 : takeN (beVal l 0) r2 with
      | none => simp [Post]; omega
      | some q =>
        obtain ⟨k, r3⟩ := q
        have h3' := takeN_some ht2
        simp only
        by_cases hv : Utf8.valid k = true
        · simp only [hv, if_true]
          have hvv := ihv d r3 hd (by omega)
          rcases hg : readValueG f d r3 with ⟨res, g⟩
          rw [hg] at hvv
          cases res with
          | error e => simp [Post] at hvv ⊢; exact ⟨by omega, hvv.2.1, by omega⟩
          | ok r =>
            obtain ⟨o, r4⟩ := r
            cases o with
            | none => simp [Post] at hvv ⊢; omega
            | some v =>
              simp only
              have hlt := hvv.2 v r4 rfl
              have hpp := ihp d r4 (insertProp k v acc) hd (by omega)
              rcases hg2 : readPropsG f d r4 (insertProp k v acc) with ⟨res2, g2⟩
              rw [hg2] at hpp
              cases res2 with
              | error e => simp [Post] at hvv hpp ⊢; exact ⟨by omega, hpp.2.1, by omega⟩
              | ok p => simp [Post] at hvv hpp ⊢; omega
        · simp [hv, Post]; omega

theorem bounds_arr_step (f : Nat)
    (ihv : ∀ d bs, d ≤ maxDepth → bs.length + 1 ≤ f →
      Post bs (fun a => a.2) (readValueG f d bs) ∧
      (∀ v r, (readValueG f d bs).1 = .ok (some v, r) → r.length < bs.length))
    (iha : ∀ d c bs acc, d ≤ maxDepth → bs.length + 2 ≤ f → Post bs (fun a => a.2) (readArrG f d c bs acc)) :
    ∀ d c bs acc, d ≤ maxDepth → bs.length + 2 ≤ f + 1 → Post bs (fun a => a.2) (readArrG (f + 1) d c bs acc) := by
  have hu := u16Max_eq
  intro d c bs acc hd hf
  cases c with
  | zero => simp [readArrG, Post]
  | succ c =>
    simp only [readArrG]
    have hvv := ihv d bs hd (by omega)
    rcases hg : readValueG f d bs with ⟨res, g⟩
    rw [hg] at hvv
    cases res with
    | error e => simp [Post] at hvv ⊢; exact ⟨by omega, hvv.2.1, by omega⟩
    | ok r =>
      obtain ⟨o, r4⟩ := r
      cases o with
      | none => simp [Post] at hvv ⊢; omega
      | some v =>
        simp only
        have hlt := hvv.2 v r4 rfl
        have hpp := iha d c r4 (acc ++ [v]) hd (by omega)
        rcases hg2 : readArrG f d c r4 (acc ++ [v]) with ⟨res2, g2⟩
        rw [hg2] at hpp
        cases res2 with
        | error e => simp [Post] at hvv hpp ⊢; exact ⟨by omega, hpp.2.1, by omega⟩
        | ok p => simp [Post] at hvv hpp ⊢; omega


theorem bounds_all (f : Nat) :
    (∀ d bs, d ≤ maxDepth → bs.length + 1 ≤ f →
      Post bs (fun a => a.2) (readValueG f d bs) ∧
      (∀ v r, (readValueG f d bs).1 = .ok (some v, r) → r.length < bs.length)) ∧
    (∀ d bs acc, d ≤ maxDepth → bs.length + 1 ≤ f → Post bs (fun a => a.2) (readPropsG f d bs acc)) ∧
    (∀ d c bs acc, d ≤ maxDepth → bs.length + 2 ≤ f → Post bs (fun a => a.2) (readArrG f d c bs acc)) := by
  induction f with
  | zero =>
    refine ⟨?_, ?_, ?_⟩ <;> intros <;> omega
  | succ f ih =>
    obtain ⟨ihv, ihp, iha⟩ := ih
    exact ⟨bounds_value_step f ihp iha, bounds_props_step f ihv ihp, bounds_arr_step f ihv iha⟩

end Rml.Amf0

namespace Rml.Amf0
open Rml Rml.Bytes

theorem erase_readAll (f : Nat) : ∀ bs acc, (readAllG f bs acc).1 = readAll f bs acc := by
  induction f with
  | zero => intros; rfl
  | succ f ih =>
    intro bs acc
    simp only [readAllG, readAll]
    rw [← (erase_all f).1 0 bs]
    rcases readValueG f 0 bs with ⟨res, g⟩
    cases res with
    | error e => rfl
    | ok r =>
      obtain ⟨o, r'⟩ := r
      cases o with
      | none => rfl
      | some v => simp only; rw [← ih r' (acc ++ [v])]

theorem bounds_readAll (f : Nat) : ∀ bs acc, bs.length + 2 ≤ f →
    Post bs (fun a => a.2) (readAllG f bs acc) := by
  induction f with
  | zero => intros; omega
  | succ f ih =>
    intro bs acc hf
    have hu := u16Max_eq
    simp only [readAllG]
    have hvv := (bounds_all f).1 0 bs (Nat.zero_le _) (by omega)
    rcases hg : readValueG f 0 bs with ⟨res, g⟩
    rw [hg] at hvv
    cases res with
    | error e => simp [Post] at hvv ⊢; exact ⟨by omega, hvv.2.1, by omega⟩
    | ok r =>
      obtain ⟨o, r4⟩ := r
      cases o with
      | none => simp [Post] at hvv ⊢; omega
      | some v =>
        simp only
        have hlt := hvv.2 v r4 rfl
        have hpp := ih r4 (acc ++ [v]) (by omega)
        rcases hg2 : readAllG f r4 (acc ++ [v]) with ⟨res2, g2⟩
        rw [hg2] at hpp
        cases res2 with
        | error e => simp [Post] at hvv hpp ⊢; exact ⟨by omega, hpp.2.1, by omega⟩
        | ok p => simp [Post] at hvv hpp ⊢; omega

end Rml.Amf0
