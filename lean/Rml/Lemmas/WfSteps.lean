/-
Message-level steps of the connect / createStream / publish / play workflow: what each API call puts on
the wire (as a message), and what the peer's handler does with exactly that message.
-/
import Rml.Lemmas.Exchange
import Rml.Lemmas.F64Cast
import Rml.Lemmas.SessSafe
import Rml.Lemmas.Utf8App
namespace Rml.WfSteps
open Rml Rml.Bytes Rml.Chunk Rml.Amf0 Rml.Msgs Rml.Sess Rml.SerHist Rml.Emit Rml.Link Rml.Exchange

theorem epoch_lt (now : Nat) : epoch now < 4294967296 := Nat.mod_lt _ (by decide)

/-! ### sends -/

theorem cli_send_exact {s s' : Cli.State} {m : RtmpMsg} {ts msid : Nat} {d : Bool} {p : Ser.Packet}
    (h : Cli.send s m ts msid d = .ok (s', p)) (hs : Sendable m) (hts : ts < 4294967296) (hmsid : msid < 4294967296) :
    ∃ typ body, toPayload m = .ok (typ, body) ∧
      Emits s.ser s'.ser [(p, { ts := ts, typ := typ, msid := msid, data := body })] ∧ s' = { s with ser := s'.ser } := by
  unfold Cli.send at h
  cases hm : sendMsg s.ser m ts msid false d with
  | error e => simp [hm] at h
  | ok r =>
    obtain ⟨ser', p'⟩ := r
    simp only [hm, Except.ok.injEq, Prod.mk.injEq] at h
    obtain ⟨h1, h2⟩ := h
    subst h1; subst h2
    obtain ⟨typ, body, hp, he⟩ := sendMsg_exact hm hs hts hmsid
    exact ⟨typ, body, hp, he, rfl⟩

theorem cli_send_total (s : Cli.State) (hp : 1 ≤ s.ser.maxCs) {m : RtmpMsg} {typ : Nat} {body : Bytes}
    (h : toPayload m = .ok (typ, body)) (hl : body.length ≤ 16777215) (ts msid : Nat) (d : Bool) :
    ∃ s' p, Cli.send s m ts msid d = .ok (s', p) := by
  obtain ⟨ser', p, hs⟩ := sendMsg_total s.ser hp h hl ts msid false d
  refine ⟨{ s with ser := ser' }, p, ?_⟩
  unfold Cli.send; simp only [hs]

theorem srv_send_exact {s s' : Srv.State} {m : RtmpMsg} {ts msid : Nat} {f d : Bool} {p : Ser.Packet}
    (h : Srv.send s m ts msid f d = .ok (s', p)) (hs : Sendable m) (hts : ts < 4294967296) (hmsid : msid < 4294967296) :
    ∃ typ body, toPayload m = .ok (typ, body) ∧
      Emits s.ser s'.ser [(p, { ts := ts, typ := typ, msid := msid, data := body })] ∧ s' = { s with ser := s'.ser } := by
  unfold Srv.send at h
  cases hm : sendMsg s.ser m ts msid f d with
  | error e => simp [hm] at h
  | ok r =>
    obtain ⟨ser', p'⟩ := r
    simp only [hm, Except.ok.injEq, Prod.mk.injEq] at h
    obtain ⟨h1, h2⟩ := h
    subst h1; subst h2
    obtain ⟨typ, body, hp, he⟩ := sendMsg_exact hm hs hts hmsid
    exact ⟨typ, body, hp, he, rfl⟩

theorem srv_send_total (s : Srv.State) (hp : 1 ≤ s.ser.maxCs) {m : RtmpMsg} {typ : Nat} {body : Bytes}
    (h : toPayload m = .ok (typ, body)) (hl : body.length ≤ 16777215) (ts msid : Nat) (f d : Bool) :
    ∃ s' p, Srv.send s m ts msid f d = .ok (s', p) := by
  obtain ⟨ser', p, hs⟩ := sendMsg_total s.ser hp h hl ts msid f d
  refine ⟨{ s with ser := ser' }, p, ?_⟩
  unfold Srv.send; simp only [hs]

/-- a command's payload has type id 20 -/
theorem cmd_typ {name : Bytes} {tid : Nat} {obj : Val} {args : List Val} {typ : Nat} {body : Bytes}
    (h : toPayload (.amf0Command name tid obj args) = .ok (typ, body)) : typ = 20 := by
  simp only [toPayload] at h
  split at h
  · simp only [Except.ok.injEq, Prod.mk.injEq] at h; exact h.1.symm
  · simp at h

/-! ### the connect request -/

/-- the command object `request_connection` builds -/
def connectProps (cfg : Cli.Config) (app : Bytes) : List (Bytes × Val) :=
  [(str "app", .str app), (str "flashVer", .str cfg.flashVersion), (str "objectEncoding", .number 0)] ++
    (match cfg.tcUrl with | some u => [(str "tcUrl", .str u)] | none => [])

def connectCmd (c : Cli.State) (app : Bytes) : RtmpMsg :=
  .amf0Command (str "connect") (F64.ofU32 c.nextTxn) (.object (connectProps c.cfg app)) []

/-- `request_connection` returned Ok: the state it leaves and the message it put on the wire -/
theorem requestConnection_ok {c c1 : Cli.State} {now : Nat} {app : Bytes} {r : Cli.Res}
    (h : Cli.requestConnection c now app = (c1, .ok r)) :
    ∃ p body, r = .out p ∧ c.st = .disconnected ∧ toPayload (connectCmd c app) = .ok (20, body) ∧
      Emits c.ser c1.ser [(p, { ts := epoch now, typ := 20, msid := 0, data := body })] ∧
      c1 = { c with nextTxn := c.nextTxn + 1, txns := mapInsert c.nextTxn (.connection app) c.txns, ser := c1.ser } := by
  unfold Cli.requestConnection at h
  split at h
  · simp at h
  · rename_i hst
    simp only [ne_eq, Decidable.not_not] at hst
    simp only at h
    split at h
    · simp at h
    · rename_i s2 p hsend
      simp only [Prod.mk.injEq, Except.ok.injEq] at h
      obtain ⟨h1, h2⟩ := h
      subst h1; subst h2
      obtain ⟨typ, body, hp, he, hs⟩ := cli_send_exact hsend trivial (epoch_lt now) (by decide)
      have ht := cmd_typ hp
      subst ht
      refine ⟨p, body, rfl, hst, hp, he, ?_⟩
      rw [hs]

/-- the application name the server works with: one trailing '/' removed -/
def trimApp (app : Bytes) : Bytes := if app.getLast? = some 47 then app.dropLast else app

theorem trimApp_valid {app : Bytes} (h : Utf8.valid app = true) : Utf8.valid (trimApp app) = true := by
  unfold trimApp
  split
  · rename_i hl
    have hne : app ≠ [] := by intro h0; subst h0; simp at hl
    have hg : app.getLast hne = 47 := by
      have := List.getLast?_eq_getLast hne
      rw [hl] at this; exact (Option.some.inj this).symm
    have := List.dropLast_concat_getLast hne
    rw [hg] at this
    rw [← this] at h
    exact Utf8.valid_dropSlash _ h
  · exact h

/-- what the client configuration must satisfy for its strings to be Rust `String`s -/
structure CfgWF (cfg : Cli.Config) : Prop where
  flash : Utf8.valid cfg.flashVersion = true
  tc : ∀ u, cfg.tcUrl = some u → Utf8.valid u = true

theorem connectCmd_wf (c : Cli.State) (app : Bytes) (hc : CfgWF c.cfg) (ha : Utf8.valid app = true)
    (ht : c.nextTxn < 4294967296) : C13.WF (connectCmd c app) := by
  unfold connectCmd C13.WF
  refine ⟨by decide, F64.ofU32_lt _ ht, ?_, trivial⟩
  unfold connectProps
  cases htc : c.cfg.tcUrl with
  | none =>
    simp only [List.append_nil, Val.WF, WFProps, ha, hc.flash, and_true, true_and, List.map]
    refine ⟨⟨by decide, by decide, by decide, by decide⟩, by decide⟩
  | some u =>
    simp only [List.cons_append, List.nil_append, Val.WF, WFProps, ha, hc.flash, hc.tc u htc, and_true, true_and, List.map]
    refine ⟨⟨by decide, by decide, by decide, by decide, by decide⟩, by decide⟩

theorem connectProps_app (cfg : Cli.Config) (app : Bytes) : propGet (str "app") (connectProps cfg app) = some (.str app) := by
  simp [connectProps, propGet]

theorem connectProps_oe (cfg : Cli.Config) (app : Bytes) :
    propGet (str "objectEncoding") (connectProps cfg app) = some (.number 0) := by
  unfold connectProps
  simp only [List.cons_append, propGet]
  rw [if_neg (by decide), if_neg (by decide)]
  simp

/-- the server handling exactly that command -/
theorem srv_connect (v : Srv.State) (now : Nat) (p : Msg) (c : Cli.State) (app : Bytes) :
    Srv.handleMessage v now p (connectCmd c app) =
      .ok ({ v with objectEncoding := 0, nextReq := v.nextReq + 1,
                    reqs := mapInsert v.nextReq (.connection (trimApp app) (F64.ofU32 c.nextTxn)) v.reqs },
           [.ev (.connectionRequested v.nextReq (trimApp app))]) := by
  simp only [connectCmd, Srv.handleMessage, Srv.handleCommand, if_true, Srv.cmdConnect, connectProps_app, connectProps_oe]
  rfl

/-! ### the connect response -/

/-- the `_result` message `accept_request` builds for a connection request -/
def connectResult (v : Srv.State) (app : Bytes) (tid : Nat) : RtmpMsg :=
  .amf0Command (str "_result") tid
    (.object [(str "fmsVer", .str v.fmsVersion), (str "capabilities", .number 0x403F000000000000)])
    [.object [(str "level", .str (str "status")), (str "code", .str (str "NetConnection.Connect.Success")),
              (str "description", .str (str "Successfully connected on app: " ++ app)),
              (str "objectEncoding", .number v.objectEncoding)]]

theorem acceptConnection_ok {v v2 : Srv.State} {now id : Nat} {app : Bytes} {tid : Nat} {rs : List Srv.Res}
    (hreq : mapGet id v.reqs = some (.connection app tid))
    (h : Srv.acceptRequest v now id = (v2, .ok rs)) :
    ∃ p body, rs = [.out p] ∧ toPayload (connectResult v app tid) = .ok (20, body) ∧
      Emits v.ser v2.ser [(p, { ts := epoch now, typ := 20, msid := 0, data := body })] ∧
      v2 = { v with reqs := mapRemove id v.reqs, app := some app, connected := true, ser := v2.ser } := by
  unfold Srv.acceptRequest at h
  simp only [hreq] at h
  split at h
  · simp at h
  · rename_i s2 p hsend
    simp only [Prod.mk.injEq, Except.ok.injEq] at h
    obtain ⟨h1, h2⟩ := h
    subst h1; subst h2
    obtain ⟨typ, body, hp, he, hs⟩ := srv_send_exact hsend trivial (epoch_lt now) (by decide)
    have ht := cmd_typ hp
    subst ht
    exact ⟨p, body, rfl, hp, he, by rw [hs]⟩

theorem connectResult_wf (v : Srv.State) (app : Bytes) (tid : Nat) (hf : Utf8.valid v.fmsVersion = true)
    (ha : Utf8.valid app = true) (ht : tid < 18446744073709551616) (ho : v.objectEncoding < 18446744073709551616) :
    C13.WF (connectResult v app tid) := by
  unfold connectResult C13.WF
  have hd : Utf8.valid (str "Successfully connected on app: " ++ app) = true := Utf8.valid_append _ _ (by decide) ha
  refine ⟨by decide, ht, ?_, ?_⟩
  · simp only [Val.WF, WFProps, hf, and_true, true_and, List.map]
    exact ⟨⟨by decide, by decide, by decide⟩, by decide⟩
  · simp only [WFList, Val.WF, WFProps, hd, ho, and_true, true_and, List.map]
    exact ⟨⟨by decide, by decide, by decide, by decide, by decide, by decide⟩, by decide⟩

/-- what the client configuration must satisfy for `handle_input` to get through the connect response -/
structure CfgOK (cfg : Cli.Config) : Prop where
  cs : 1 ≤ cfg.chunkSize ∧ cfg.chunkSize ≤ 2147483647
  win : cfg.windowAckSize < 4294967296

/-- the client handling exactly that response while the connection transaction is outstanding -/
theorem cli_connectResult (c : Cli.State) (now : Nat) (p : Msg) (v : Srv.State) (app app' : Bytes) (k : Nat)
    (hk : k < 4294967296) (htx : mapGet k c.txns = some (.connection app)) (hcfg : CfgOK c.cfg) (hpos : 1 ≤ c.ser.maxCs) :
    ∃ c2 p1 p2, Cli.handleMessage c now p (connectResult v app' (F64.ofU32 k)) =
        (c2, .ok [.out p1, .ev .connectionAccepted, .out p2]) ∧
      Emits c.ser c2.ser [(p1, { ts := epoch now, typ := 5, msid := 0, data := be32 c.cfg.windowAckSize }),
                          (p2, { ts := 0, typ := 1, msid := 0, data := be32 c.cfg.chunkSize })] ∧
      c2 = { c with txns := mapRemove k c.txns, st := .connected, app := some app, ser := c2.ser } := by
  simp only [connectResult, Cli.handleMessage, if_true, Cli.handleResult, F64.toU32_ofU32 k hk, htx]
  obtain ⟨s2, p1, hsend⟩ := cli_send_total { c with txns := mapRemove k c.txns, st := .connected, app := some app } hpos
    (m := .windowAck c.cfg.windowAckSize) (typ := 5) (body := be32 c.cfg.windowAckSize) rfl (by simp [be32])
    (epoch now) 0 false
  obtain ⟨typ, body, hp, he, hs⟩ := cli_send_exact hsend trivial (epoch_lt now) (by decide)
  simp only [toPayload, Except.ok.injEq, Prod.mk.injEq] at hp
  obtain ⟨rfl, rfl⟩ := hp
  simp only [hsend]
  have hpos2 : 1 ≤ s2.ser.maxCs := Safe.emits_cs_pos he hpos
  -- the chunk-size announcement
  obtain ⟨ser3, p2, hset⟩ := setcs_total s2.ser hpos2 c.cfg.chunkSize hcfg.cs 0
  simp only [hset]
  refine ⟨{ s2 with ser := ser3 }, p1, p2, rfl, ?_, ?_⟩
  · exact he.trans (Emits.setcs hset (by decide))
  · rw [hs]

/-! ### protocol-control messages at either end -/

theorem fp_windowAck (n : Nat) (h : n < 4294967296) : fromPayload 5 (be32 n) = .ok (.windowAck n) := by
  have hw : C13.WF (.windowAck n) := by unfold C13.WF C13.U32; exact h
  exact C13.C13_roundtrip (.windowAck n) hw 5 _ (by simp only [toPayload])

theorem fp_setcs (n : Nat) (h : n ≤ 2147483647) : fromPayload 1 (be32 n) = .ok (.setChunkSize n) := by
  have hw : C13.WF (.setChunkSize n) := by unfold C13.WF C13.U32; omega
  refine C13.C13_roundtrip (.setChunkSize n) hw 1 _ ?_
  simp only [toPayload]
  rw [if_neg (by omega)]

theorem srv_step_windowAck (v : Srv.State) (now w ts : Nat) (hw : w < 4294967296) :
    SrvSteps.stepMsg v now { ts := ts, typ := 5, msid := 0, data := be32 w } = .ok ({ v with window := some w }, []) := by
  rw [srv_stepMsg_fp (fp_windowAck w hw)]
  simp only [Srv.handleMessage]

theorem srv_step_setcs (v : Srv.State) (now cs ts : Nat) (hcs : 1 ≤ cs ∧ cs ≤ 2147483647) :
    SrvSteps.stepMsg v now { ts := ts, typ := 1, msid := 0, data := be32 cs } =
      .ok ({ v with des := { v.des with core := { v.des.core with maxCs := cs } } }, []) := by
  have h1 : ¬ (cs = 0 ∨ cs > maxChunkSize) := by simp only [maxChunkSize]; omega
  rw [srv_stepMsg_fp (fp_setcs cs hcs.2)]
  simp only [Srv.handleMessage, Des.setMaxChunkSize, h1, if_false]

theorem srv_steps_two (v v1 v2 : Srv.State) (now : Nat) (m1 m2 : Msg) (r1 r2 : List Srv.Res)
    (h1 : SrvSteps.stepMsg v now m1 = .ok (v1, r1)) (h2 : SrvSteps.stepMsg v1 now m2 = .ok (v2, r2)) :
    SrvSteps.steps v now [m1, m2] = .ok (v2, r1 ++ r2) := by
  simp only [SrvSteps.steps, h1, h2, List.append_nil]

theorem srv_steps_one (v v1 : Srv.State) (now : Nat) (m1 : Msg) (r1 : List Srv.Res)
    (h1 : SrvSteps.stepMsg v now m1 = .ok (v1, r1)) : SrvSteps.steps v now [m1] = .ok (v1, r1) := by
  simp only [SrvSteps.steps, h1, List.append_nil]

theorem cli_steps_one (c c1 : Cli.State) (now : Nat) (m1 : Msg) (r1 : List Cli.Res)
    (h1 : CliSteps.stepMsg c now m1 = .ok (c1, r1)) : CliSteps.steps c now [m1] = .ok (c1, r1) := by
  simp only [CliSteps.steps, h1, List.append_nil]

theorem cli_steps_two (c c1 c2 : Cli.State) (now : Nat) (m1 m2 : Msg) (r1 r2 : List Cli.Res)
    (h1 : CliSteps.stepMsg c now m1 = .ok (c1, r1)) (h2 : CliSteps.stepMsg c1 now m2 = .ok (c2, r2)) :
    CliSteps.steps c now [m1, m2] = .ok (c2, r1 ++ r2) := by
  simp only [CliSteps.steps, h1, h2, List.append_nil]

/-- window size then chunk size, as the client announces them after its connection is accepted -/
theorem srv_steps_announce (v : Srv.State) (now w cs ts1 ts2 : Nat) (hw : w < 4294967296)
    (hcs : 1 ≤ cs ∧ cs ≤ 2147483647) :
    ∃ d, SrvSteps.steps v now [{ ts := ts1, typ := 5, msid := 0, data := be32 w }, { ts := ts2, typ := 1, msid := 0, data := be32 cs }] =
      .ok ({ v with window := some w, des := d }, []) :=
  ⟨_, srv_steps_two v _ _ now _ _ _ _ (srv_step_windowAck v now w ts1 hw) (srv_step_setcs _ now cs ts2 hcs)⟩

/-- the same two at the client (the server's banner starts with them, in the other order) -/
theorem cli_step_windowAck (c : Cli.State) (now w ts : Nat) (hw : w < 4294967296) :
    CliSteps.stepMsg c now { ts := ts, typ := 5, msid := 0, data := be32 w } = .ok ({ c with window := some w }, []) := by
  rw [cli_stepMsg_fp (fp_windowAck w hw)]
  simp only [Cli.handleMessage]

theorem cli_step_setcs (c : Cli.State) (now cs ts : Nat) (hcs : 1 ≤ cs ∧ cs ≤ 2147483647) :
    CliSteps.stepMsg c now { ts := ts, typ := 1, msid := 0, data := be32 cs } =
      .ok ({ c with des := { c.des with core := { c.des.core with maxCs := cs } } }, []) := by
  have h1 : ¬ (cs = 0 ∨ cs > maxChunkSize) := by simp only [maxChunkSize]; omega
  rw [cli_stepMsg_fp (fp_setcs cs hcs.2)]
  simp only [Cli.handleMessage, Des.setMaxChunkSize, h1, if_false]

/-- a stream-begin notice changes nothing at the client and raises nothing -/
theorem cli_step_streamBegin (c : Cli.State) (now sid ts msid : Nat) (typ : Nat) (body : Bytes) (hs : sid < 4294967296)
    (hp : toPayload (.userControl .streamBegin (some sid) none none) = .ok (typ, body)) :
    CliSteps.stepMsg c now { ts := ts, typ := typ, msid := msid, data := body } = .ok (c, []) := by
  have hw : C13.WF (.userControl .streamBegin (some sid) none none) := by
    unfold C13.WF C13.U32; exact ⟨⟨sid, rfl, hs⟩, rfl, rfl⟩
  rw [cli_stepMsg_of hw hp]
  simp only [Cli.handleMessage]

end Rml.WfSteps
