/-
Server session: every function hands to the serializer, in the order of the packets it returns, only
well-formed messages (`Emit.Emits`), and keeps the invariant that makes that possible (32-bit message
stream ids in the deserializer and in the outstanding requests).
-/
import Rml.Lemmas.Emit
import Rml.Lemmas.DesWF
import Rml.Model.ServerSession
namespace Rml.SrvEmit
open Rml Rml.Bytes Rml.Chunk Rml.Amf0 Rml.Msgs Rml.Sess Rml.Emit

def outs (rs : List Srv.Res) : List Ser.Packet :=
  rs.filterMap fun r => match r with
    | .out p => some p
    | _ => none

/-- the results `rs` of a step from `s` to `s'` contain exactly the packets of a well-formed serializer
    history from `s.ser` to `s'.ser`, in order, each carrying a sendable RTMP message -/
def Em (s s' : Srv.State) (rs : List Srv.Res) : Prop :=
  ∃ xs, Emits s.ser s'.ser xs ∧ xs.map (·.1) = outs rs ∧ ∀ x ∈ xs, FromRtmp x.2

def reqSid : Srv.Req → Nat
  | .connection _ _ => 0
  | .publish _ _ sid => sid
  | .play _ sid => sid

def Inv (s : Srv.State) : Prop :=
  Des.CoreOK s.des.core ∧ ∀ id r, mapGet id s.reqs = some r → reqSid r < 4294967296

theorem em_same {s s' : Srv.State} {rs : List Srv.Res} (h1 : s'.ser = s.ser) (h2 : outs rs = []) : Em s s' rs :=
  ⟨[], by rw [h1]; exact Emits.nil _, by rw [h2]; rfl, fun _ h => by cases h⟩

theorem em_trans {a b c : Srv.State} {r1 r2 : List Srv.Res} (h1 : Em a b r1) (h2 : Em b c r2) : Em a c (r1 ++ r2) := by
  obtain ⟨x1, e1, m1, g1⟩ := h1
  obtain ⟨x2, e2, m2, g2⟩ := h2
  refine ⟨x1 ++ x2, e1.trans e2, ?_, ?_⟩
  · simp only [List.map_append, m1, m2, outs, List.filterMap_append]
  · intro x hx; rcases List.mem_append.mp hx with h | h
    · exact g1 x h
    · exact g2 x h

theorem epoch_lt (now : Nat) : epoch now < 4294967296 := Nat.mod_lt _ (by decide)

theorem em_send {s s' : Srv.State} {m : RtmpMsg} {ts msid : Nat} {f d : Bool} {p : Ser.Packet}
    (h : Srv.send s m ts msid f d = .ok (s', p)) (hs : Sendable m) (hts : ts < 4294967296)
    (hmsid : msid < 4294967296) :
    Em s s' [.out p] ∧ s' = { s with ser := s'.ser } := by
  unfold Srv.send at h
  cases hm : sendMsg s.ser m ts msid f d with
  | error e => simp [hm] at h
  | ok r =>
    obtain ⟨ser', p'⟩ := r
    simp only [hm, Except.ok.injEq, Prod.mk.injEq] at h
    obtain ⟨h1, h2⟩ := h
    subst h1; subst h2
    obtain ⟨x, he, hf, _, _⟩ := sendMsg_emits hm hs hts hmsid
    exact ⟨⟨[(p', x)], he, rfl, fun y hy => by simp at hy; rw [hy]; exact hf⟩, rfl⟩

theorem inv_frame {s s' : Srv.State} (hd : s'.des = s.des) (hr : s'.reqs = s.reqs) (h : Inv s) : Inv s' := by
  unfold Inv; rw [hd, hr]; exact h

theorem inv_insert {s s' : Srv.State} {id : Nat} {r : Srv.Req} (h : Inv s) (hd : s'.des = s.des)
    (hq : s'.reqs = mapInsert id r s.reqs) (hr : reqSid r < 4294967296) : Inv s' := by
  refine ⟨by rw [hd]; exact h.1, ?_⟩
  intro j q hj
  rw [hq] at hj
  by_cases hjk : j = id
  · subst hjk; rw [mapGet_mapInsert_self] at hj; simp only [Option.some.injEq] at hj; rw [← hj]; exact hr
  · rw [mapGet_mapInsert_ne _ j hjk] at hj; exact h.2 j q hj

theorem inv_remove {s : Srv.State} (h : Inv s) (id : Nat) (s' : Srv.State) (hd : s'.des = s.des)
    (hq : s'.reqs = mapRemove id s.reqs) : Inv s' := by
  refine ⟨by rw [hd]; exact h.1, ?_⟩
  intro j q hj
  rw [hq] at hj
  exact h.2 j q (Des.mapGet_of_mapRemove id j s.reqs q hj)

/-- one step: what it emits, and that it keeps the invariant -/
def Step (s s' : Srv.State) (rs : List Srv.Res) : Prop := Em s s' rs ∧ (Inv s → Inv s')

theorem step_send {s s' : Srv.State} {m : RtmpMsg} {ts msid : Nat} {f d : Bool} {p : Ser.Packet}
    (h : Srv.send s m ts msid f d = .ok (s', p)) (hs : Sendable m) (hts : ts < 4294967296)
    (hmsid : msid < 4294967296) : Step s s' [.out p] := by
  obtain ⟨he, hf⟩ := em_send h hs hts hmsid
  exact ⟨he, fun hi => inv_frame (by rw [hf]) (by rw [hf]) hi⟩

theorem step_errorOut {s s' : Srv.State} {now : Nat} {code desc : Bytes} {tid sid : Nat} {rs : List Srv.Res}
    (h : Srv.errorOut s now code desc tid sid = .ok (s', rs)) (hsid : sid < 4294967296) : Step s s' rs := by
  unfold Srv.errorOut Srv.errorPacket at h
  split at h
  · simp at h
  · rename_i s2 p hs
    simp only [Except.ok.injEq, Prod.mk.injEq] at h
    rw [← h.1, ← h.2]
    exact step_send hs trivial (epoch_lt now) hsid

theorem outs_finished (app : Bytes) (st : Srv.StreamState) : outs (Srv.finishedEvents app st) = [] := by
  unfold Srv.finishedEvents; cases st <;> rfl

theorem step_closeOrDelete (s : Srv.State) (args : List Val) (delete : Bool) :
    Step s (Srv.cmdCloseOrDelete s args delete).1 (Srv.cmdCloseOrDelete s args delete).2 := by
  have triv : Step s s [] := ⟨em_same rfl rfl, fun h => h⟩
  unfold Srv.cmdCloseOrDelete
  cases hconn : s.connected
  · simpa using triv
  · simp only [Bool.not_eq_true, Bool.true_eq_false, if_false, not_true_eq_false]
    cases happ : s.app with
    | none => simpa using triv
    | some app =>
      simp only
      match args with
      | [] => simpa using triv
      | .number x :: rest =>
        simp only
        cases hg : mapGet (F64.toU32 x) s.streams with
        | none => simpa using triv
        | some st => exact ⟨em_same rfl (outs_finished _ _), fun h => inv_frame rfl rfl h⟩
      | .boolean _ :: _ => simpa using triv
      | .str _ :: _ => simpa using triv
      | .object _ :: _ => simpa using triv
      | .array _ :: _ => simpa using triv
      | .null :: _ => simpa using triv
      | .undefined :: _ => simpa using triv

/-- leaves of the walks: a step that returns events only and changes neither serializer, nor
    deserializer, nor requests -/
theorem step_ev (s : Srv.State) (e : Srv.Event) : Step s s [.ev e] := ⟨em_same rfl rfl, fun h => h⟩
theorem step_nil (s : Srv.State) : Step s s [] := ⟨em_same rfl rfl, fun h => h⟩

theorem step_cmdConnect {s s' : Srv.State} {tid : Nat} {obj : Val} {rs : List Srv.Res}
    (h : Srv.cmdConnect s tid obj = .ok (s', rs)) : Step s s' rs := by
  unfold Srv.cmdConnect at h
  (repeat' split at h)
  all_goals first
    | (simp at h; done)
    | (simp only [Except.ok.injEq, Prod.mk.injEq] at h
       obtain ⟨h1, h2⟩ := h
       subst h1; subst h2
       exact ⟨em_same rfl rfl, fun hi => inv_insert hi rfl rfl (by show (0 : Nat) < 4294967296; omega)⟩)

theorem step_cmdCreateStream {s s' : Srv.State} {now tid : Nat} {rs : List Srv.Res}
    (h : Srv.cmdCreateStream s now tid = .ok (s', rs)) : Step s s' rs := by
  unfold Srv.cmdCreateStream at h
  simp only at h
  split at h
  · simp at h
  · rename_i s2 p hs
    simp only [Except.ok.injEq, Prod.mk.injEq] at h
    rw [← h.1, ← h.2]
    have := step_send hs trivial (epoch_lt now) (by show (0 : Nat) < 4294967296; omega)
    exact ⟨this.1, fun hi => this.2 (inv_frame rfl rfl hi)⟩

theorem step_cmdPlay {s s' : Srv.State} {now sid tid : Nat} {args : List Val} {rs : List Srv.Res}
    (hsid : sid < 4294967296) (h : Srv.cmdPlay s now sid tid args = .ok (s', rs)) : Step s s' rs := by
  unfold Srv.cmdPlay at h
  match args, h with
  | [], h => exact step_errorOut h hsid
  | a0 :: rest, h =>
    simp only at h
    (repeat' split at h)
    all_goals first
      | exact step_errorOut h hsid
      | (simp only [Except.ok.injEq, Prod.mk.injEq] at h
         obtain ⟨h1, h2⟩ := h
         subst h1; subst h2
         exact ⟨em_same rfl rfl, fun hi => inv_insert hi rfl rfl hsid⟩)

theorem step_cmdPublish {s s' : Srv.State} {now sid tid : Nat} {args : List Val} {rs : List Srv.Res}
    (hsid : sid < 4294967296) (h : Srv.cmdPublish s now sid tid args = .ok (s', rs)) : Step s s' rs := by
  unfold Srv.cmdPublish at h
  match args, h with
  | [], h => exact step_errorOut h hsid
  | [_], h => exact step_errorOut h hsid
  | a0 :: a1 :: _, h =>
    simp only at h
    (repeat' split at h)
    all_goals first
      | exact step_errorOut h hsid
      | (simp at h; done)
      | (simp only [Except.ok.injEq, Prod.mk.injEq] at h
         obtain ⟨h1, h2⟩ := h
         subst h1; subst h2
         exact ⟨em_same rfl rfl, fun hi => inv_insert hi rfl rfl hsid⟩)
      | (rename_i s2 p hs
         simp only [Except.ok.injEq, Prod.mk.injEq] at h
         rw [← h.1, ← h.2]
         exact step_send hs trivial (epoch_lt now) hsid)

theorem step_handleCommand {s s' : Srv.State} {now sid : Nat} {name : Bytes} {tid : Nat} {obj : Val} {args : List Val}
    {rs : List Srv.Res} (hsid : sid < 4294967296)
    (h : Srv.handleCommand s now sid name tid obj args = .ok (s', rs)) : Step s s' rs := by
  unfold Srv.handleCommand at h
  split at h
  · exact step_cmdConnect h
  · split at h
    · simp only [Except.ok.injEq] at h
      have := step_closeOrDelete s args false
      rw [h] at this; exact this
    · split at h
      · exact step_cmdCreateStream h
      · split at h
        · simp only [Except.ok.injEq] at h
          have := step_closeOrDelete s args true
          rw [h] at this; exact this
        · split at h
          · exact step_cmdPlay hsid h
          · split at h
            · exact step_cmdPublish hsid h
            · simp only [Except.ok.injEq, Prod.mk.injEq] at h
              rw [← h.1, ← h.2]; exact step_ev _ _

theorem outs_handleData (s : Srv.State) (vals : List Val) (sid : Nat) : outs (Srv.handleData s vals sid) = [] := by
  unfold Srv.handleData
  (repeat' split) <;> rfl

theorem outs_handleMedia (s : Srv.State) (v : Bool) (d : Bytes) (sid ts : Nat) : outs (Srv.handleMedia s v d sid ts) = [] := by
  unfold Srv.handleMedia
  (repeat' split) <;> rfl

theorem step_handleMessage {s s' : Srv.State} {now : Nat} {p : Msg} {m : RtmpMsg} {rs : List Srv.Res}
    (hsid : p.msid < 4294967296) (h : Srv.handleMessage s now p m = .ok (s', rs)) : Step s s' rs := by
  unfold Srv.handleMessage at h
  cases m with
  | amf0Command name tid obj args => exact step_handleCommand hsid h
  | amf0Data vals =>
    simp only [Except.ok.injEq, Prod.mk.injEq] at h
    rw [← h.1, ← h.2]; exact ⟨em_same rfl (outs_handleData _ _ _), fun hi => hi⟩
  | audio d =>
    simp only [Except.ok.injEq, Prod.mk.injEq] at h
    rw [← h.1, ← h.2]; exact ⟨em_same rfl (outs_handleMedia _ _ _ _ _), fun hi => hi⟩
  | video d =>
    simp only [Except.ok.injEq, Prod.mk.injEq] at h
    rw [← h.1, ← h.2]; exact ⟨em_same rfl (outs_handleMedia _ _ _ _ _), fun hi => hi⟩
  | setChunkSize n =>
    simp only at h
    split at h
    · simp at h
    · rename_i c hc
      simp only [Except.ok.injEq, Prod.mk.injEq] at h
      rw [← h.1, ← h.2]
      exact ⟨em_same rfl rfl, fun hi => ⟨Des.setMaxChunkSize_ok hi.1 hc, hi.2⟩⟩
  | userControl ev a b ts =>
    simp only at h
    cases ev <;> simp only at h
    all_goals first
      | (simp only [Except.ok.injEq, Prod.mk.injEq] at h; rw [← h.1, ← h.2]
         first | exact step_nil _ | exact step_ev _ _)
      | (split at h
         · simp at h
         · rename_i s2 pk hs
           simp only [Except.ok.injEq, Prod.mk.injEq] at h
           rw [← h.1, ← h.2]
           exact step_send hs trivial (epoch_lt now) (by show (0 : Nat) < 4294967296; omega))
  | abort _ => simp only [Except.ok.injEq, Prod.mk.injEq] at h; rw [← h.1, ← h.2]; exact step_nil _
  | ack n => simp only [Except.ok.injEq, Prod.mk.injEq] at h; rw [← h.1, ← h.2]; exact step_ev _ _
  | setPeerBandwidth _ _ => simp only [Except.ok.injEq, Prod.mk.injEq] at h; rw [← h.1, ← h.2]; exact step_nil _
  | windowAck n =>
    simp only [Except.ok.injEq, Prod.mk.injEq] at h; rw [← h.1, ← h.2]
    exact ⟨em_same rfl rfl, fun hi => inv_frame rfl rfl hi⟩
  | unknown _ _ =>
    simp only [Except.ok.injEq, Prod.mk.injEq] at h; rw [← h.1, ← h.2]
    exact ⟨em_same rfl rfl, fun hi => hi⟩

/-- the message loop: whatever it returns, the invariant survives; when it returns results, they extend
    what had been gathered by a well-formed history -/
theorem msgLoop_step (f : Nat) : ∀ (s s' s0 : Srv.State) (now : Nat) (acc : List Srv.Res) (r : Except Err (List Srv.Res)),
    Inv s → Srv.msgLoop f s now acc = (s', r) →
    Inv s' ∧ (∀ rs, r = .ok rs → Em s0 s acc → Em s0 s' rs) := by
  induction f with
  | zero =>
    intro s s' s0 now acc r hi h
    simp only [Srv.msgLoop, Prod.mk.injEq] at h
    rw [← h.1, ← h.2]; exact ⟨hi, fun rs hr => by cases hr⟩
  | succ f ih =>
    intro s s' s0 now acc r hi h
    simp only [Srv.msgLoop] at h
    obtain ⟨hc1, hm1⟩ := Des.next_ok s.des hi.1
    have hi1 : Inv { s with des := { core := (Des.next s.des).core, buf := (Des.next s.des).buf } } := ⟨hc1, hi.2⟩
    split at h
    · simp only [Prod.mk.injEq] at h; rw [← h.1, ← h.2]; exact ⟨hi1, fun rs hr => by cases hr⟩
    · split at h
      · simp only [Prod.mk.injEq] at h; rw [← h.1, ← h.2]
        exact ⟨hi1, fun rs hr he => by simp only [Except.ok.injEq] at hr; rw [← hr]; exact he⟩
      · rename_i p hp
        split at h
        · simp only [Prod.mk.injEq] at h; rw [← h.1, ← h.2]; exact ⟨hi1, fun rs hr => by cases hr⟩
        · split at h
          · simp only [Prod.mk.injEq] at h; rw [← h.1, ← h.2]; exact ⟨hi1, fun rs hr => by cases hr⟩
          · rename_i m hm s2 rs2 hmsg
            have hst := step_handleMessage (hm1 p hp) hmsg
            obtain ⟨hi', hem⟩ := ih s2 s' s0 now _ r (hst.2 hi1) h
            exact ⟨hi', fun rs hr he => hem rs hr (em_trans (show Em s0 _ acc from he) hst.1)⟩

theorem handleInput_step {s s' : Srv.State} {now : Nat} {bytes : Bytes} {r : Except Err (List Srv.Res)}
    (hi : Inv s) (h : Srv.handleInput s now bytes = (s', r)) :
    Inv s' ∧ (∀ rs, r = .ok rs → Em s s' rs) := by
  unfold Srv.handleInput at h
  simp only at h
  have hbuf : Inv { s with des := { s.des with buf := s.des.buf ++ bytes } } := ⟨hi.1, hi.2⟩
  split at h
  · have key := fun hinv => msgLoop_step _ _ s' s now [] r hinv h
    obtain ⟨hi', hem⟩ := key ⟨hi.1, hi.2⟩
    exact ⟨hi', fun rs hr => hem rs hr (em_same rfl rfl)⟩
  · split at h
    · simp only [Prod.mk.injEq] at h; rw [← h.1, ← h.2]
      exact ⟨⟨hi.1, hi.2⟩, fun rs hr => by cases hr⟩
    · rename_i n hack s1 p hs
      have hst := step_send hs trivial (epoch_lt now) (by show (0 : Nat) < 4294967296; omega)
      have key := fun hinv => msgLoop_step _ _ s' s now [.out p] r hinv h
      have hi1 := hst.2 hbuf
      obtain ⟨hi', hem⟩ := key ⟨hi1.1, hi1.2⟩
      exact ⟨hi', fun rs hr => hem rs hr hst.1⟩

theorem rejectRequest_step {s s' : Srv.State} {now id : Nat} {code desc : Bytes} {r : Except Err (List Srv.Res)}
    (hi : Inv s) (h : Srv.rejectRequest s now id code desc = (s', r)) :
    Inv s' ∧ (∀ rs, r = .ok rs → Em s s' rs) := by
  unfold Srv.rejectRequest at h
  cases hg : mapGet id s.reqs with
  | none =>
    simp only [hg, Prod.mk.injEq] at h; rw [← h.1, ← h.2]; exact ⟨hi, fun rs hr => by cases hr⟩
  | some req =>
    simp only [hg] at h
    have hrm : Inv { s with reqs := mapRemove id s.reqs } := inv_remove hi id _ rfl rfl
    have hsid := hi.2 id req hg
    have key : ∀ tid sid, sid < 4294967296 →
        (match Srv.errorPacket { s with reqs := mapRemove id s.reqs } now code desc tid sid with
          | .error e => (({ s with reqs := mapRemove id s.reqs } : Srv.State), (Except.error e : Except Err (List Srv.Res)))
          | .ok (s1, p) => (s1, .ok [.out p])) = (s', r) →
        Inv s' ∧ (∀ rs, r = .ok rs → Em s s' rs) := by
      intro tid sid hb h
      split at h
      · simp only [Prod.mk.injEq] at h; rw [← h.1, ← h.2]; exact ⟨hrm, fun rs hr => by cases hr⟩
      · rename_i s1 p hp
        simp only [Prod.mk.injEq] at h; rw [← h.1, ← h.2]
        unfold Srv.errorPacket at hp
        have hst := step_send hp trivial (epoch_lt now) hb
        exact ⟨hst.2 hrm, fun rs hr => by simp only [Except.ok.injEq] at hr; rw [← hr]; exact hst.1⟩
    cases req with
    | connection app tid => exact key tid 0 (by omega) h
    | publish key' mode sid => exact key 0 sid hsid h
    | play key' sid => exact key 0 sid hsid h

theorem em_cons {a b c : Srv.State} {p : Ser.Packet} {rs : List Srv.Res} (h1 : Em a b [.out p]) (h2 : Em b c rs) :
    Em a c (.out p :: rs) := em_trans h1 h2

theorem acceptRequest_step {s s' : Srv.State} {now id : Nat} {r : Except Err (List Srv.Res)}
    (hi : Inv s) (h : Srv.acceptRequest s now id = (s', r)) :
    Inv s' ∧ (∀ rs, r = .ok rs → Em s s' rs) := by
  unfold Srv.acceptRequest at h
  cases hg : mapGet id s.reqs with
  | none =>
    simp only [hg, Prod.mk.injEq] at h; rw [← h.1, ← h.2]; exact ⟨hi, fun rs hr => by cases hr⟩
  | some req =>
    simp only [hg] at h
    have hrm : Inv { s with reqs := mapRemove id s.reqs } := inv_remove hi id _ rfl rfl
    have hsid := hi.2 id req hg
    have z : (0 : Nat) < 4294967296 := by omega
    cases req with
    | connection app tid =>
      simp only at h
      split at h
      · simp only [Prod.mk.injEq] at h; rw [← h.1, ← h.2]
        exact ⟨inv_frame rfl rfl hrm, fun rs hr => by cases hr⟩
      · rename_i s2 p hs
        simp only [Prod.mk.injEq] at h; rw [← h.1, ← h.2]
        have hst := step_send hs trivial (epoch_lt now) z
        exact ⟨hst.2 (inv_frame rfl rfl hrm), fun rs hr => by simp only [Except.ok.injEq] at hr; rw [← hr]; exact hst.1⟩
    | publish key mode sid =>
      simp only at h
      split at h
      · simp only [Prod.mk.injEq] at h; rw [← h.1, ← h.2]; exact ⟨hrm, fun rs hr => by cases hr⟩
      · have hi1 : Inv { ({ s with reqs := mapRemove id s.reqs } : Srv.State) with
            streams := mapInsert sid (.publishing key mode) s.streams } := inv_frame rfl rfl hrm
        split at h
        · simp only [Prod.mk.injEq] at h; rw [← h.1, ← h.2]; exact ⟨hi1, fun rs hr => by cases hr⟩
        · rename_i s2 p1 hs1
          have st1 := step_send hs1 trivial (epoch_lt now) hsid
          split at h
          · simp only [Prod.mk.injEq] at h; rw [← h.1, ← h.2]; exact ⟨st1.2 hi1, fun rs hr => by cases hr⟩
          · rename_i s3 p2 hs2
            have st2 := step_send hs2 trivial (epoch_lt now) hsid
            simp only [Prod.mk.injEq] at h; rw [← h.1, ← h.2]
            exact ⟨st2.2 (st1.2 hi1), fun rs hr => by
              simp only [Except.ok.injEq] at hr; rw [← hr]; exact em_cons st1.1 st2.1⟩
    | play key sid =>
      simp only at h
      split at h
      · simp only [Prod.mk.injEq] at h; rw [← h.1, ← h.2]; exact ⟨hrm, fun rs hr => by cases hr⟩
      · have hi1 : Inv { ({ s with reqs := mapRemove id s.reqs } : Srv.State) with
            streams := mapInsert sid (.playing key) s.streams } := inv_frame rfl rfl hrm
        split at h
        · simp only [Prod.mk.injEq] at h; rw [← h.1, ← h.2]; exact ⟨hi1, fun rs hr => by cases hr⟩
        · rename_i s2 p1 hs1
          have st1 := step_send hs1 trivial (epoch_lt now) hsid
          split at h
          · simp only [Prod.mk.injEq] at h; rw [← h.1, ← h.2]; exact ⟨st1.2 hi1, fun rs hr => by cases hr⟩
          · rename_i s3 p2 hs2
            have st2 := step_send hs2 trivial (epoch_lt now) hsid
            split at h
            · simp only [Prod.mk.injEq] at h; rw [← h.1, ← h.2]; exact ⟨st2.2 (st1.2 hi1), fun rs hr => by cases hr⟩
            · rename_i s4 p3 hs3
              have st3 := step_send hs3 trivial (epoch_lt now) hsid
              split at h
              · simp only [Prod.mk.injEq] at h; rw [← h.1, ← h.2]
                exact ⟨st3.2 (st2.2 (st1.2 hi1)), fun rs hr => by cases hr⟩
              · rename_i s5 p4 hs4
                have st4 := step_send hs4 trivial (epoch_lt now) hsid
                split at h
                · simp only [Prod.mk.injEq] at h; rw [← h.1, ← h.2]
                  exact ⟨st4.2 (st3.2 (st2.2 (st1.2 hi1))), fun rs hr => by cases hr⟩
                · rename_i s6 p5 hs5
                  have st5 := step_send hs5 trivial (epoch_lt now) hsid
                  simp only [Prod.mk.injEq] at h; rw [← h.1, ← h.2]
                  exact ⟨st5.2 (st4.2 (st3.2 (st2.2 (st1.2 hi1)))), fun rs hr => by
                    simp only [Except.ok.injEq] at hr; rw [← hr]
                    exact em_cons st1.1 (em_cons st2.1 (em_cons st3.1 (em_cons st4.1 st5.1)))⟩

/-- application calls on an established session -/
inductive Op where
  | input (now : Nat) (bytes : Bytes)
  | accept (now id : Nat)
  | reject (now id : Nat) (code desc : Bytes)
  | media (video : Bool) (sid : Nat) (data : Bytes) (ts : Nat) (drop : Bool)
  | metadata (now sid : Nat) (m : Metadata)
  | ping (now : Nat)
  | finish (now sid : Nat)

/-- what the Rust types guarantee about the arguments (u32 stream ids and timestamps) -/
def Op.WF : Op → Prop
  | .media _ sid _ ts _ => sid < 4294967296 ∧ ts < 4294967296
  | .metadata _ sid _ => sid < 4294967296
  | .finish _ sid => sid < 4294967296
  | _ => True

def pk (x : Srv.State × Except Err Ser.Packet) : Srv.State × Except Err (List Srv.Res) :=
  (x.1, match x.2 with
        | .ok p => .ok [.out p]
        | .error e => .error e)

def apply (s : Srv.State) : Op → Srv.State × Except Err (List Srv.Res)
  | .input now bytes => Srv.handleInput s now bytes
  | .accept now id => Srv.acceptRequest s now id
  | .reject now id code desc => Srv.rejectRequest s now id code desc
  | .media v sid d ts drop => pk (Srv.sendMedia s v sid d ts drop)
  | .metadata now sid m => pk (Srv.sendMetadata s now sid m)
  | .ping now =>
    let x := Srv.sendPing s now
    (x.1, match x.2 with
          | .ok (p, _) => .ok [.out p]
          | .error e => .error e)
  | .finish now sid => pk (Srv.finishPlaying s now sid)

theorem apply_step {s s' : Srv.State} {op : Op} {r : Except Err (List Srv.Res)} (hi : Inv s) (hw : op.WF)
    (h : apply s op = (s', r)) : Inv s' ∧ (∀ rs, r = .ok rs → Em s s' rs) := by
  have z : (0 : Nat) < 4294967296 := by omega
  cases op with
  | input now bytes => exact handleInput_step hi h
  | accept now id => exact acceptRequest_step hi h
  | reject now id code desc => exact rejectRequest_step hi h
  | media v sid d ts drop =>
    simp only [apply, pk, Srv.sendMedia] at h
    split at h
    · simp only [Prod.mk.injEq] at h; rw [← h.1, ← h.2]; exact ⟨hi, fun rs hr => by cases hr⟩
    · rename_i s2 p hs
      simp only [Prod.mk.injEq] at h; rw [← h.1, ← h.2]
      have hst := step_send hs (by cases v <;> exact trivial) hw.2 hw.1
      exact ⟨hst.2 hi, fun rs hr => by simp only [Except.ok.injEq] at hr; rw [← hr]; exact hst.1⟩
  | metadata now sid m =>
    simp only [apply, pk, Srv.sendMetadata] at h
    split at h
    · simp only [Prod.mk.injEq] at h; rw [← h.1, ← h.2]; exact ⟨hi, fun rs hr => by cases hr⟩
    · rename_i s2 p hs
      simp only [Prod.mk.injEq] at h; rw [← h.1, ← h.2]
      have hst := step_send hs trivial (epoch_lt now) hw
      exact ⟨hst.2 hi, fun rs hr => by simp only [Except.ok.injEq] at hr; rw [← hr]; exact hst.1⟩
  | ping now =>
    simp only [apply, Srv.sendPing] at h
    split at h
    · simp only [Prod.mk.injEq] at h; rw [← h.1, ← h.2]; exact ⟨hi, fun rs hr => by cases hr⟩
    · rename_i s2 p hs
      simp only [Prod.mk.injEq] at h; rw [← h.1, ← h.2]
      have hst := step_send hs trivial (epoch_lt now) z
      exact ⟨hst.2 hi, fun rs hr => by simp only [Except.ok.injEq] at hr; rw [← hr]; exact hst.1⟩
  | finish now sid =>
    simp only [apply, pk, Srv.finishPlaying] at h
    split at h
    · split at h
      · simp only [Prod.mk.injEq] at h; rw [← h.1, ← h.2]
        exact ⟨inv_frame rfl rfl hi, fun rs hr => by cases hr⟩
      · rename_i s2 p hs
        simp only [Prod.mk.injEq] at h; rw [← h.1, ← h.2]
        have hst := step_send hs trivial (epoch_lt now) hw
        exact ⟨hst.2 (inv_frame rfl rfl hi), fun rs hr => by simp only [Except.ok.injEq] at hr; rw [← hr]; exact hst.1⟩
    · simp only [Prod.mk.injEq] at h; rw [← h.1, ← h.2]; exact ⟨hi, fun rs hr => by cases hr⟩

/-- a history of calls: final state and everything returned by the calls that succeeded, in order -/
def run (s : Srv.State) : List Op → Srv.State × List Srv.Res
  | [] => (s, [])
  | op :: rest =>
    let x := apply s op
    let y := run x.1 rest
    (y.1, (match x.2 with
           | .ok rs => rs
           | .error _ => []) ++ y.2)

/-- the hypothesis that excludes known finding K2: a call that returned an error had not yet handed a
    message to the serializer (so no returned-nowhere packet shifted the compression state) -/
def ErrKeepsSer (s : Srv.State) : List Op → Prop
  | [] => True
  | op :: rest =>
    (match (apply s op).2 with
     | .error _ => (apply s op).1.ser = s.ser
     | .ok _ => True) ∧ ErrKeepsSer (apply s op).1 rest

theorem run_step : ∀ (ops : List Op) (s : Srv.State), Inv s → (∀ op ∈ ops, op.WF) → ErrKeepsSer s ops →
    Em s (run s ops).1 (run s ops).2 ∧ Inv (run s ops).1 := by
  intro ops
  induction ops with
  | nil => intro s hi _ _; exact ⟨em_same rfl rfl, hi⟩
  | cons op rest ih =>
    intro s hi hw hk
    obtain ⟨hk1, hk2⟩ := hk
    obtain ⟨hi1, hem⟩ := apply_step (op := op) hi (hw op (List.mem_cons_self ..)) (rfl : apply s op = ((apply s op).1, (apply s op).2))
    obtain ⟨hr, hir⟩ := ih (apply s op).1 hi1 (fun o ho => hw o (List.mem_cons_of_mem _ ho)) hk2
    simp only [run]
    refine ⟨?_, hir⟩
    cases hx : (apply s op).2 with
    | ok rs =>
      simp only
      exact em_trans (hem rs hx) hr
    | error e =>
      simp only [hx] at hk1
      simp only [List.nil_append]
      obtain ⟨xs, e1, e2, e3⟩ := hr
      exact ⟨xs, by rw [← hk1]; exact e1, e2, e3⟩

/-- `ServerSession::new`: the chunk-size announcement through the serializer's setter, then the greeting -/
theorem new_emits {c : Srv.Config} {now : Nat} {s0 : Srv.State} {rs0 : List Srv.Res}
    (h : Srv.new c now = .ok (s0, rs0)) :
    ∃ xs, Emits {} s0.ser xs ∧ xs.map (·.1) = outs rs0 ∧ Inv s0 := by
  have z : (0 : Nat) < 4294967296 := by omega
  unfold Srv.new at h
  simp only at h
  cases hcs : Ser.setMaxChunkSize ({ fmsVersion := c.fmsVersion } : Srv.State).ser c.chunkSize 0 with
  | err e => simp [hcs] at h
  | hang => simp [hcs] at h
  | ok q =>
    obtain ⟨ser1, p1⟩ := q
    simp only [hcs] at h
    have e1 := Emits.setcs hcs z
    have hinv1 : Inv { ({ fmsVersion := c.fmsVersion } : Srv.State) with ser := ser1 } :=
      ⟨Des.coreOK_init, fun id r hh => by simp [mapGet] at hh⟩
    split at h
    · simp at h
    · rename_i s2 p2 hs2
      have st2 := step_send hs2 trivial (epoch_lt now) z
      split at h
      · simp at h
      · rename_i s3 p3 hs3
        have st3 := step_send hs3 trivial (epoch_lt now) z
        split at h
        · simp at h
        · rename_i s4 p4 hs4
          have st4 := step_send hs4 trivial (epoch_lt now) z
          have em234 := em_cons st2.1 (em_cons st3.1 st4.1)
          split at h
          · split at h
            · simp at h
            · rename_i s5 p5 hs5
              have st5 := step_send hs5 trivial (epoch_lt now) z
              simp only [Except.ok.injEq, Prod.mk.injEq] at h
              rw [← h.1, ← h.2]
              obtain ⟨xs, ex, mx, _⟩ := em_trans em234 st5.1
              refine ⟨_ :: xs, Emits.trans e1 ex, ?_, st5.2 (st4.2 (st3.2 (st2.2 hinv1)))⟩
              simp only [List.map_cons, mx]; rfl
          · simp only [Except.ok.injEq, Prod.mk.injEq] at h
            rw [← h.1, ← h.2]
            obtain ⟨xs, ex, mx, _⟩ := em234
            refine ⟨_ :: xs, Emits.trans e1 ex, ?_, st4.2 (st3.2 (st2.2 hinv1))⟩
            simp only [List.map_cons, mx]; rfl

end Rml.SrvEmit
