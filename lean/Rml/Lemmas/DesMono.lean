/-
Prefix-monotonicity of the deserializer stages and of the drain loop: the per-stage half of Thm P.
-/
import Rml.Model.Deserializer
namespace Rml.Des
open Rml Rml.Bytes Rml.Chunk

/-- a reader is monotone: what it reads from `b` it reads from `b ++ ys`, leaving `ys` appended -/
def Mono {α : Type} (f : Bytes → Option (α × Bytes)) : Prop :=
  ∀ b ys a r, f b = some (a, r) → f (b ++ ys) = some (a, r ++ ys)

theorem take1_mono : Mono take1 := by
  intro b ys a r h
  match b, h with
  | x :: t, h => simp only [take1, List.cons_append] at h ⊢; simp_all

theorem take3_mono : Mono take3 := by
  intro b ys a r h
  match b, h with
  | x0 :: x1 :: x2 :: t, h => simp only [take3, List.cons_append] at h ⊢; simp_all

theorem take4be_mono : Mono take4be := by
  intro b ys a r h
  match b, h with
  | x0 :: x1 :: x2 :: x3 :: t, h => simp only [take4be, List.cons_append] at h ⊢; simp_all

theorem take4le_mono : Mono take4le := by
  intro b ys a r h
  match b, h with
  | x0 :: x1 :: x2 :: x3 :: t, h => simp only [take4le, List.cons_append] at h ⊢; simp_all

theorem basicHdr_mono (b ys : Bytes) (a : Fmt × Nat) (r : Bytes)
    (h : basicHdr b = some (a.1, a.2, r)) : basicHdr (b ++ ys) = some (a.1, a.2, r ++ ys) := by
  match b, h with
  | x :: t, h =>
    simp only [basicHdr, List.cons_append] at h ⊢
    by_cases h0 : x.toNat % 64 = 0
    · simp only [h0, if_true] at h ⊢
      match t, h with
      | y :: t', h => simp_all
    · simp only [h0, if_false] at h ⊢
      by_cases h1 : x.toNat % 64 = 1
      · simp only [h1, if_true] at h ⊢
        match t, h with
        | y :: z :: t', h => simp_all
      · simp only [h1, if_false] at h ⊢
        simp_all

/-- a stage that progresses on `b` progresses identically on `b ++ ys` -/
theorem stageStep_mono_ok (c c' : Core) (b ys rest : Bytes) (m : Option Msg)
    (h : stageStep c b = .ok c' rest m) : stageStep c (b ++ ys) = .ok c' (rest ++ ys) m := by
  unfold stageStep at h ⊢
  cases hs : c.stage <;> simp only [hs] at h ⊢
  · -- csid
    cases hb : basicHdr b with
    | none => simp [hb] at h
    | some p =>
      obtain ⟨fmt, csid, r⟩ := p
      rw [basicHdr_mono b ys (fmt, csid) r hb]
      simp only [hb] at h ⊢
      by_cases hf : fmt = .f0
      · simp only [hf, if_true] at h ⊢
        simp only [Step.ok.injEq] at h ⊢
        obtain ⟨h1, h2, h3⟩ := h
        exact ⟨h1, by rw [h2], h3⟩
      · simp only [hf, if_false] at h ⊢
        cases hg : mapGet csid c.prev with
        | none => simp [hg] at h
        | some hd =>
          simp only [hg, Step.ok.injEq] at h ⊢
          obtain ⟨h1, h2, h3⟩ := h
          exact ⟨h1, by rw [h2], h3⟩
  · -- its
    by_cases hf : c.fmt = .f3
    · simp only [hf, if_true, Step.ok.injEq] at h ⊢
      obtain ⟨h1, h2, h3⟩ := h
      exact ⟨h1, by rw [h2], h3⟩
    · simp only [hf, if_false] at h ⊢
      cases hb : take3 b with
      | none => simp [hb] at h
      | some p =>
        obtain ⟨t, r⟩ := p
        rw [take3_mono b ys t r hb]
        simp only [hb, Step.ok.injEq] at h ⊢
        obtain ⟨h1, h2, h3⟩ := h
        exact ⟨h1, by rw [h2], h3⟩
  · -- mlen
    by_cases hf : c.fmt = .f2 ∨ c.fmt = .f3
    · simp only [hf, if_true, Step.ok.injEq] at h ⊢
      obtain ⟨h1, h2, h3⟩ := h
      exact ⟨h1, by rw [h2], h3⟩
    · simp only [hf, if_false] at h ⊢
      cases hb : take3 b with
      | none => simp [hb] at h
      | some p =>
        obtain ⟨t, r⟩ := p
        rw [take3_mono b ys t r hb]
        simp only [hb, Step.ok.injEq] at h ⊢
        obtain ⟨h1, h2, h3⟩ := h
        exact ⟨h1, by rw [h2], h3⟩
  · -- mtyp
    by_cases hf : c.fmt = .f2 ∨ c.fmt = .f3
    · simp only [hf, if_true, Step.ok.injEq] at h ⊢
      obtain ⟨h1, h2, h3⟩ := h
      exact ⟨h1, by rw [h2], h3⟩
    · simp only [hf, if_false] at h ⊢
      cases hb : take1 b with
      | none => simp [hb] at h
      | some p =>
        obtain ⟨t, r⟩ := p
        rw [take1_mono b ys t r hb]
        simp only [hb, Step.ok.injEq] at h ⊢
        obtain ⟨h1, h2, h3⟩ := h
        exact ⟨h1, by rw [h2], h3⟩
  · -- msid
    by_cases hf : c.fmt = .f0
    · simp only [hf, ne_eq, not_true_eq_false, if_false] at h ⊢
      cases hb : take4le b with
      | none => simp [hb] at h
      | some p =>
        obtain ⟨t, r⟩ := p
        rw [take4le_mono b ys t r hb]
        simp only [hb, Step.ok.injEq] at h ⊢
        obtain ⟨h1, h2, h3⟩ := h
        exact ⟨h1, by rw [h2], h3⟩
    · simp only [hf, ne_eq, not_false_eq_true, if_true, Step.ok.injEq] at h ⊢
      obtain ⟨h1, h2, h3⟩ := h
      exact ⟨h1, by rw [h2], h3⟩
  · -- ext
    by_cases hf : c.cur.field < maxTs24
    · simp only [hf, if_true, Step.ok.injEq] at h ⊢
      obtain ⟨h1, h2, h3⟩ := h
      exact ⟨h1, by rw [h2], h3⟩
    · simp only [hf, if_false] at h ⊢
      cases hb : take4be b with
      | none => simp [hb] at h
      | some p =>
        obtain ⟨t, r⟩ := p
        rw [take4be_mono b ys t r hb]
        simp only [hb, Step.ok.injEq] at h ⊢
        obtain ⟨h1, h2, h3⟩ := h
        exact ⟨h1, by rw [h2], h3⟩
  · -- payload
    by_cases hl : c.cur.len < c.pdata.length
    · simp [hl] at h
    · simp only [hl, if_false] at h ⊢
      generalize hn : (if c.cur.len > c.maxCs then min (c.cur.len - c.pdata.length) c.maxCs else c.cur.len) = n at h ⊢
      by_cases hb : b.length < n
      · simp [hb] at h
      · have hb' : ¬ (b ++ ys).length < n := by simp only [List.length_append]; omega
        simp only [hb, hb', if_false] at h ⊢
        have ht : (b ++ ys).take n = b.take n := List.take_append_of_le_length (by omega)
        have hd : (b ++ ys).drop n = b.drop n ++ ys := List.drop_append_of_le_length (by omega)
        rw [ht, hd]
        by_cases hc : (c.pdata ++ b.take n).length = c.cur.len
        · simp only [hc, if_true, Step.ok.injEq] at h ⊢
          obtain ⟨h1, h2, h3⟩ := h
          exact ⟨h1, by rw [h2], h3⟩
        · simp only [hc, if_false, Step.ok.injEq] at h ⊢
          obtain ⟨h1, h2, h3⟩ := h
          exact ⟨h1, by rw [h2], h3⟩

/-- a stage that fails on `b` fails identically on `b ++ ys` -/
theorem stageStep_mono_err (c : Core) (b ys : Bytes) (e : Err)
    (h : stageStep c b = .err e) : stageStep c (b ++ ys) = .err e := by
  unfold stageStep at h ⊢
  cases hs : c.stage <;> simp only [hs] at h ⊢
  · cases hb : basicHdr b with
    | none => simp [hb] at h
    | some p =>
      obtain ⟨fmt, csid, r⟩ := p
      rw [basicHdr_mono b ys (fmt, csid) r hb]
      simp only [hb] at h ⊢
      by_cases hf : fmt = .f0
      · simp [hf] at h
      · simp only [hf, if_false] at h ⊢
        cases hg : mapGet csid c.prev with
        | none => simpa [hg] using h
        | some hd => simp [hg] at h
  · by_cases hf : c.fmt = .f3
    · simp [hf] at h
    · simp only [hf, if_false] at h
      cases hb : take3 b <;> simp [hb] at h
  · by_cases hf : c.fmt = .f2 ∨ c.fmt = .f3
    · simp [hf] at h
    · simp only [hf, if_false] at h
      cases hb : take3 b <;> simp [hb] at h
  · by_cases hf : c.fmt = .f2 ∨ c.fmt = .f3
    · simp [hf] at h
    · simp only [hf, if_false] at h
      cases hb : take1 b <;> simp [hb] at h
  · by_cases hf : c.fmt = .f0
    · simp only [hf, ne_eq, not_true_eq_false, if_false] at h
      cases hb : take4le b <;> simp [hb] at h
    · simp [hf] at h
  · by_cases hf : c.cur.field < maxTs24
    · simp [hf] at h
    · simp only [hf, if_false] at h
      cases hb : take4be b <;> simp [hb] at h
  · by_cases hl : c.cur.len < c.pdata.length
    · simpa [hl] using h
    · simp only [hl, if_false] at h
      generalize hn : (if c.cur.len > c.maxCs then min (c.cur.len - c.pdata.length) c.maxCs else c.cur.len) = n at h
      by_cases hb : b.length < n
      · simp [hb] at h
      · simp only [hb, if_false] at h
        split at h <;> simp at h

end Rml.Des
