/-
The metadata reader folds over the property map; properties with different names update different fields, so
the result is the same for every enumeration order of a map with distinct names (the real `HashMap` order is
arbitrary; the model fixes one).
-/
import Rml.Lemmas.MetaTrip
namespace Rml.Meta
open Rml Rml.Sess Rml.Amf0

/-- which field a property name addresses (11: none) -/
def slot (k : Bytes) : Nat :=
  if k = str "width" then 0
  else if k = str "height" then 1
  else if k = str "videocodecid" then 2
  else if k = str "videodatarate" then 3
  else if k = str "framerate" then 4
  else if k = str "audiocodecid" then 5
  else if k = str "audiodatarate" then 6
  else if k = str "audiosamplerate" then 7
  else if k = str "audiochannels" then 8
  else if k = str "stereo" then 9
  else if k = str "encoder" then 10
  else 11

/-- the update a property performs on the field it addresses -/
def upd (i : Nat) (v : Val) (a : Metadata) : Metadata :=
  match i with
  | 0 => (match (numOf v).map F64.toU32 with | some x => { a with videoWidth := some x } | none => a)
  | 1 => (match (numOf v).map F64.toU32 with | some x => { a with videoHeight := some x } | none => a)
  | 2 => (match (numOf v).map F64.toU32 with | some x => { a with videoCodecId := some x } | none => a)
  | 3 => (match (numOf v).map F64.toU32 with | some x => { a with videoBitrateKbps := some x } | none => a)
  | 4 => (match numOf v with | some x => { a with videoFrameRate := some (F64.toF32 x) } | none => a)
  | 5 => (match (numOf v).map F64.toU32 with | some x => { a with audioCodecId := some x } | none => a)
  | 6 => (match (numOf v).map F64.toU32 with | some x => { a with audioBitrateKbps := some x } | none => a)
  | 7 => (match (numOf v).map F64.toU32 with | some x => { a with audioSampleRate := some x } | none => a)
  | 8 => (match (numOf v).map F64.toU32 with | some x => { a with audioChannels := some x } | none => a)
  | 9 => (match v with | .boolean x => { a with audioIsStereo := some x } | _ => a)
  | 10 => (match v with | .str x => { a with encoder := some x } | _ => a)
  | _ => a

theorem applyMeta_upd (a : Metadata) (k : Bytes) (v : Val) : applyMeta a k v = upd (slot k) v a := by
  unfold applyMeta slot
  dsimp only
  by_cases h0 : k = str "width"
  · rw [if_pos h0, if_pos h0]; rfl
  · rw [if_neg h0, if_neg h0]
    by_cases h1 : k = str "height"
    · rw [if_pos h1, if_pos h1]; rfl
    · rw [if_neg h1, if_neg h1]
      by_cases h2 : k = str "videocodecid"
      · rw [if_pos h2, if_pos h2]; rfl
      · rw [if_neg h2, if_neg h2]
        by_cases h3 : k = str "videodatarate"
        · rw [if_pos h3, if_pos h3]; rfl
        · rw [if_neg h3, if_neg h3]
          by_cases h4 : k = str "framerate"
          · rw [if_pos h4, if_pos h4]; rfl
          · rw [if_neg h4, if_neg h4]
            by_cases h5 : k = str "audiocodecid"
            · rw [if_pos h5, if_pos h5]; rfl
            · rw [if_neg h5, if_neg h5]
              by_cases h6 : k = str "audiodatarate"
              · rw [if_pos h6, if_pos h6]; rfl
              · rw [if_neg h6, if_neg h6]
                by_cases h7 : k = str "audiosamplerate"
                · rw [if_pos h7, if_pos h7]; rfl
                · rw [if_neg h7, if_neg h7]
                  by_cases h8 : k = str "audiochannels"
                  · rw [if_pos h8, if_pos h8]; rfl
                  · rw [if_neg h8, if_neg h8]
                    by_cases h9 : k = str "stereo"
                    · rw [if_pos h9, if_pos h9]; rfl
                    · rw [if_neg h9, if_neg h9]
                      by_cases h10 : k = str "encoder"
                      · rw [if_pos h10, if_pos h10]; rfl
                      · rw [if_neg h10, if_neg h10]
                        rfl

def nameOf : Nat → Bytes
  | 0 => str "width"
  | 1 => str "height"
  | 2 => str "videocodecid"
  | 3 => str "videodatarate"
  | 4 => str "framerate"
  | 5 => str "audiocodecid"
  | 6 => str "audiodatarate"
  | 7 => str "audiosamplerate"
  | 8 => str "audiochannels"
  | 9 => str "stereo"
  | 10 => str "encoder"
  | _ => []

theorem slot_name (k : Bytes) (i : Nat) (hi : i < 11) (h : slot k = i) : k = nameOf i := by
  unfold slot at h
  (repeat' split at h) <;> first | omega | (subst h; assumption)

theorem slot_lt_eq {k1 k2 : Bytes} (h : slot k1 = slot k2) (h11 : slot k1 < 11) : k1 = k2 := by
  rw [slot_name k1 (slot k1) h11 rfl, slot_name k2 (slot k1) h11 h.symm]

def g_videoWidth (v : Val) (old : Option Nat) : Option Nat :=
  match (numOf v).map F64.toU32 with | some x => some x | none => old

theorem upd_videoWidth (i : Nat) (v : Val) (a : Metadata) : (upd i v a).videoWidth = if i = 0 then g_videoWidth v a.videoWidth else a.videoWidth := by
  unfold upd g_videoWidth
  (repeat' split) <;> first | rfl | omega | (simp_all; done)

def g_videoHeight (v : Val) (old : Option Nat) : Option Nat :=
  match (numOf v).map F64.toU32 with | some x => some x | none => old

theorem upd_videoHeight (i : Nat) (v : Val) (a : Metadata) : (upd i v a).videoHeight = if i = 1 then g_videoHeight v a.videoHeight else a.videoHeight := by
  unfold upd g_videoHeight
  (repeat' split) <;> first | rfl | omega | (simp_all; done)

def g_videoCodecId (v : Val) (old : Option Nat) : Option Nat :=
  match (numOf v).map F64.toU32 with | some x => some x | none => old

theorem upd_videoCodecId (i : Nat) (v : Val) (a : Metadata) : (upd i v a).videoCodecId = if i = 2 then g_videoCodecId v a.videoCodecId else a.videoCodecId := by
  unfold upd g_videoCodecId
  (repeat' split) <;> first | rfl | omega | (simp_all; done)

def g_videoBitrateKbps (v : Val) (old : Option Nat) : Option Nat :=
  match (numOf v).map F64.toU32 with | some x => some x | none => old

theorem upd_videoBitrateKbps (i : Nat) (v : Val) (a : Metadata) : (upd i v a).videoBitrateKbps = if i = 3 then g_videoBitrateKbps v a.videoBitrateKbps else a.videoBitrateKbps := by
  unfold upd g_videoBitrateKbps
  (repeat' split) <;> first | rfl | omega | (simp_all; done)

def g_videoFrameRate (v : Val) (old : Option Nat) : Option Nat :=
  match numOf v with | some x => some (F64.toF32 x) | none => old

theorem upd_videoFrameRate (i : Nat) (v : Val) (a : Metadata) : (upd i v a).videoFrameRate = if i = 4 then g_videoFrameRate v a.videoFrameRate else a.videoFrameRate := by
  unfold upd g_videoFrameRate
  (repeat' split) <;> first | rfl | omega | (simp_all; done)

def g_audioCodecId (v : Val) (old : Option Nat) : Option Nat :=
  match (numOf v).map F64.toU32 with | some x => some x | none => old

theorem upd_audioCodecId (i : Nat) (v : Val) (a : Metadata) : (upd i v a).audioCodecId = if i = 5 then g_audioCodecId v a.audioCodecId else a.audioCodecId := by
  unfold upd g_audioCodecId
  (repeat' split) <;> first | rfl | omega | (simp_all; done)

def g_audioBitrateKbps (v : Val) (old : Option Nat) : Option Nat :=
  match (numOf v).map F64.toU32 with | some x => some x | none => old

theorem upd_audioBitrateKbps (i : Nat) (v : Val) (a : Metadata) : (upd i v a).audioBitrateKbps = if i = 6 then g_audioBitrateKbps v a.audioBitrateKbps else a.audioBitrateKbps := by
  unfold upd g_audioBitrateKbps
  (repeat' split) <;> first | rfl | omega | (simp_all; done)

def g_audioSampleRate (v : Val) (old : Option Nat) : Option Nat :=
  match (numOf v).map F64.toU32 with | some x => some x | none => old

theorem upd_audioSampleRate (i : Nat) (v : Val) (a : Metadata) : (upd i v a).audioSampleRate = if i = 7 then g_audioSampleRate v a.audioSampleRate else a.audioSampleRate := by
  unfold upd g_audioSampleRate
  (repeat' split) <;> first | rfl | omega | (simp_all; done)

def g_audioChannels (v : Val) (old : Option Nat) : Option Nat :=
  match (numOf v).map F64.toU32 with | some x => some x | none => old

theorem upd_audioChannels (i : Nat) (v : Val) (a : Metadata) : (upd i v a).audioChannels = if i = 8 then g_audioChannels v a.audioChannels else a.audioChannels := by
  unfold upd g_audioChannels
  (repeat' split) <;> first | rfl | omega | (simp_all; done)

def g_audioIsStereo (v : Val) (old : Option Bool) : Option Bool :=
  match v with | .boolean x => some x | _ => old

theorem upd_audioIsStereo (i : Nat) (v : Val) (a : Metadata) : (upd i v a).audioIsStereo = if i = 9 then g_audioIsStereo v a.audioIsStereo else a.audioIsStereo := by
  unfold upd g_audioIsStereo
  (repeat' split) <;> first | rfl | omega | (simp_all; done)

def g_encoder (v : Val) (old : Option Bytes) : Option Bytes :=
  match v with | .str x => some x | _ => old

theorem upd_encoder (i : Nat) (v : Val) (a : Metadata) : (upd i v a).encoder = if i = 10 then g_encoder v a.encoder else a.encoder := by
  unfold upd g_encoder
  (repeat' split) <;> first | rfl | omega | (simp_all; done)

theorem upd_comm (i j : Nat) (hij : i ≠ j) (v1 v2 : Val) (a : Metadata) : upd j v2 (upd i v1 a) = upd i v1 (upd j v2 a) := by
  apply Metadata.ext' <;> simp only [upd_videoWidth, upd_videoHeight, upd_videoCodecId, upd_videoBitrateKbps, upd_videoFrameRate, upd_audioCodecId, upd_audioBitrateKbps, upd_audioSampleRate, upd_audioChannels, upd_audioIsStereo, upd_encoder] <;> (repeat' split) <;> first | rfl | omega

theorem upd_ge (i : Nat) (h : 11 ≤ i) (v : Val) (a : Metadata) : upd i v a = a := by
  apply Metadata.ext' <;> simp only [upd_videoWidth, upd_videoHeight, upd_videoCodecId, upd_videoBitrateKbps, upd_videoFrameRate, upd_audioCodecId, upd_audioBitrateKbps, upd_audioSampleRate, upd_audioChannels, upd_audioIsStereo, upd_encoder] <;> (repeat' split) <;> first | rfl | omega

/-- two properties with different names commute -/
theorem applyMeta_comm (a : Metadata) (k1 k2 : Bytes) (v1 v2 : Val) (h : k1 ≠ k2) :
    applyMeta (applyMeta a k1 v1) k2 v2 = applyMeta (applyMeta a k2 v2) k1 v1 := by
  rw [applyMeta_upd, applyMeta_upd, applyMeta_upd, applyMeta_upd]
  by_cases hs : slot k1 = slot k2
  · by_cases h11 : slot k1 < 11
    · exact absurd (slot_lt_eq hs h11) h
    · simp only [upd_ge (slot k1) (by omega), upd_ge (slot k2) (by omega)]
  · exact upd_comm (slot k1) (slot k2) hs v1 v2 a

theorem fst_inj_of_nodup : ∀ (l : List (Bytes × Val)), (l.map Prod.fst).Nodup → ∀ x ∈ l, ∀ y ∈ l, x.1 = y.1 → x = y
  | [], _, x, hx, _, _, _ => by cases hx
  | p :: r, hn, x, hx, y, hy, hk => by
    simp only [List.map_cons, List.nodup_cons] at hn
    rcases List.mem_cons.mp hx with h1 | h1 <;> rcases List.mem_cons.mp hy with h2 | h2
    · rw [h1, h2]
    · exfalso; apply hn.1; rw [← h1, hk]; exact List.mem_map.mpr ⟨y, h2, rfl⟩
    · exfalso; apply hn.1; rw [← h2, ← hk]; exact List.mem_map.mpr ⟨x, h1, rfl⟩
    · exact fst_inj_of_nodup r hn.2 x h1 y h2 hk

/-- **the metadata reader does not depend on the enumeration order** of a property map with distinct names -/
theorem applyMetadata_perm {l l' : List (Bytes × Val)} (hp : l.Perm l') (hn : (l.map Prod.fst).Nodup) :
    applyMetadata l = applyMetadata l' := by
  rw [applyMetadata_eq, applyMetadata_eq]
  refine List.Perm.foldl_eq' hp ?_ _
  intro x hx y hy z
  by_cases hxy : x = y
  · rw [hxy]
  · have hk : x.1 ≠ y.1 := by
      intro hk
      apply hxy
      exact fst_inj_of_nodup l hn x hx y hy hk
    exact applyMeta_comm z x.1 y.1 x.2 y.2 hk

end Rml.Meta
