/- Basic facts about the serializer model: slicing, acceptance, non-empty packets, chunk size ≥ 1. -/
import Rml.Model.Serializer
namespace Rml.Ser
open Rml Rml.Bytes Rml.Chunk

theorem slicesFuel_flatten (cs : Nat) (hcs : 1 ≤ cs) : ∀ (f : Nat) (data : Bytes), data.length ≤ f →
    (slicesFuel f cs data).flatten = data := by
  intro f
  induction f with
  | zero => intro data h; have : data = [] := List.eq_nil_of_length_eq_zero (by omega); subst this; rfl
  | succ f ih =>
    intro data h
    simp only [slicesFuel]
    by_cases he : data.isEmpty
    · simp only [he, if_true]; simp only [List.isEmpty_iff] at he; simp [he]
    · simp only [he]
      simp only [List.isEmpty_iff] at he
      have hpos : 0 < data.length := List.length_pos_iff.mpr he
      have : (data.drop cs).length ≤ f := by simp only [List.length_drop]; omega
      simp only [Bool.false_eq_true, if_false, List.flatten_cons, ih _ this, List.take_append_drop]

theorem slicesFuel_le (cs : Nat) : ∀ (f : Nat) (data : Bytes), ∀ sl ∈ slicesFuel f cs data, sl.length ≤ cs := by
  intro f
  induction f with
  | zero => intro data sl h; simp [slicesFuel] at h
  | succ f ih =>
    intro data sl h
    simp only [slicesFuel] at h
    split at h
    · simp at h
    · simp only [List.mem_cons] at h
      rcases h with h | h
      · subst h; simp only [List.length_take]; omega
      · exact ih _ sl h

theorem slicesFuel_count (cs : Nat) (hcs : 1 ≤ cs) : ∀ (f : Nat) (data : Bytes),
    (slicesFuel f cs data).length ≤ data.length := by
  intro f
  induction f with
  | zero => intro data; simp [slicesFuel]
  | succ f ih =>
    intro data
    simp only [slicesFuel]
    by_cases he : data.isEmpty
    · simp [he]
    · simp only [he]
      simp only [List.isEmpty_iff] at he
      have hpos : 0 < data.length := List.length_pos_iff.mpr he
      have := ih (data.drop cs)
      simp only [List.length_drop] at this
      simp only [Bool.false_eq_true, if_false, List.length_cons]; omega

/-- the slices of a message are its payload, cut into pieces no longer than the chunk size; a
    message without payload is one empty piece -/
theorem slices_flatten (cs : Nat) (hcs : 1 ≤ cs) (data : Bytes) : (slices cs data).flatten = data := by
  unfold slices
  split
  · rename_i h; simp only [List.isEmpty_iff] at h; simp [h]
  · exact slicesFuel_flatten cs hcs _ _ (Nat.le_refl _)

theorem slices_le (cs : Nat) (data : Bytes) : ∀ sl ∈ slices cs data, sl.length ≤ cs := by
  unfold slices
  split
  · intro sl h; simp at h; subst h; simp
  · exact slicesFuel_le cs _ _

theorem slices_ne_nil (cs : Nat) (data : Bytes) : slices cs data ≠ [] := by
  unfold slices
  split
  · simp
  · rename_i h
    simp only [List.isEmpty_iff] at h
    cases data with
    | nil => exact absurd rfl h
    | cons x t => simp [slicesFuel]

/-- the slicing loop runs at most `len + 1` times -/
theorem slices_count (cs : Nat) (hcs : 1 ≤ cs) (data : Bytes) : (slices cs data).length ≤ data.length + 1 := by
  unfold slices
  split
  · simp
  · have := slicesFuel_count cs hcs data.length data; omega

theorem headerBytes_ne_nil (fmt : Fmt) (h : Hdr) : headerBytes fmt h ≠ [] := by
  unfold headerBytes; simp

theorem addChunk_bytes_ne_nil (s : State) (force : Bool) (m : Msg) (cont : Bool) (sl : Bytes) (drop : Bool) :
    (addChunk s force m cont sl drop).2 ≠ [] := by
  unfold addChunk
  simp only
  intro h
  have := List.append_eq_nil_iff.mp h
  exact headerBytes_ne_nil _ _ this.1

theorem addChunk_maxCs (s : State) (force : Bool) (m : Msg) (cont : Bool) (sl : Bytes) (drop : Bool) :
    (addChunk s force m cont sl drop).1.maxCs = s.maxCs := by
  unfold addChunk; rfl

theorem addChunks_maxCs (force : Bool) (m : Msg) (drop : Bool) : ∀ (sls : List Bytes) (s : State) (cont : Bool),
    (addChunks s force m drop cont sls).1.maxCs = s.maxCs := by
  intro sls
  induction sls with
  | nil => intro s cont; rfl
  | cons sl rest ih =>
    intro s cont
    simp only [addChunks]
    rw [ih, addChunk_maxCs]

theorem addChunks_bytes_ne_nil (force : Bool) (m : Msg) (drop : Bool) (sls : List Bytes) (hne : sls ≠ [])
    (s : State) (cont : Bool) : (addChunks s force m drop cont sls).2 ≠ [] := by
  cases sls with
  | nil => exact absurd rfl hne
  | cons sl rest =>
    simp only [addChunks]
    intro h
    have := List.append_eq_nil_iff.mp h
    exact addChunk_bytes_ne_nil _ _ _ _ _ _ this.1

end Rml.Ser
