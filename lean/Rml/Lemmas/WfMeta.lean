/-
Metadata items on a publishing / playing pair: the receiver raises exactly one metadata event carrying
the sender's metadata (Lemmas/MetaTrip.lean for the trip through the property map).
-/
import Rml.Lemmas.Workflow
import Rml.Lemmas.MetaTrip
namespace Rml.Workflow
open Rml Rml.Bytes Rml.Chunk Rml.Amf0 Rml.Msgs Rml.Sess Rml.SerHist Rml.Emit Rml.Link Rml.Exchange Rml.WfSteps Rml.Meta

/-- the data message `publish_metadata` builds -/
def metaMsgC (m : Metadata) : RtmpMsg :=
  .amf0Data [.str (str "@setDataFrame"), .str (str "onMetaData"), .object (metadataProps m)]
/-- the data message `send_metadata` builds -/
def metaMsgS (m : Metadata) : RtmpMsg := .amf0Data [.str (str "onMetaData"), .object (metadataProps m)]

theorem metaMsgC_wf (m : Metadata) (hw : MetaWF' m) : C13.WF (metaMsgC m) := by
  unfold metaMsgC C13.WF
  exact ⟨by unfold Val.WF; decide, by unfold Val.WF; decide, metadataProps_wf m hw, trivial⟩

theorem metaMsgS_wf (m : Metadata) (hw : MetaWF' m) : C13.WF (metaMsgS m) := by
  unfold metaMsgS C13.WF
  exact ⟨by unfold Val.WF; decide, metadataProps_wf m hw, trivial⟩

theorem publishMetadata_ok {c c1 : Cli.State} {now sid : Nat} {m : Metadata} {r : Cli.Res}
    (hs : c.st = .publishing) (ha : c.activeStream = some sid) (hsid : sid < 4294967296)
    (h : Cli.publishMetadata c now m = (c1, .ok r)) :
    ∃ p body, r = .out p ∧ toPayload (metaMsgC m) = .ok (18, body) ∧
      Emits c.ser c1.ser [(p, { ts := epoch now, typ := 18, msid := sid, data := body })] ∧ c1 = { c with ser := c1.ser } := by
  unfold Cli.publishMetadata Cli.publishGuard at h
  simp only [hs, ha, ne_eq, not_true_eq_false, if_false] at h
  split at h
  · simp at h
  · rename_i s2 p hsend
    simp only [Prod.mk.injEq, Except.ok.injEq] at h
    obtain ⟨h1, h2⟩ := h
    subst h1; subst h2
    obtain ⟨typ, body, hp, he, hq⟩ := cli_send_exact hsend trivial (epoch_lt now) hsid
    have ht := data_typ hp
    subst ht
    exact ⟨p, body, rfl, hp, he, hq⟩

/-- the server handling exactly that data message on a publishing stream -/
theorem srv_metadata (v : Srv.State) (now : Nat) (p : Msg) (m : Metadata) (app key : Bytes) (mode : Srv.PublishMode)
    (ha : v.app = some app) (hs : mapGet p.msid v.streams = some (.publishing key mode)) :
    Srv.handleMessage v now p (metaMsgC m) = .ok (v, [.ev (.metadataChanged app key (applyMetadata (metadataProps m)))]) := by
  unfold metaMsgC Srv.handleMessage
  dsimp only
  unfold Srv.handleData
  dsimp only
  rw [if_pos rfl]
  try dsimp only
  rw [if_neg (by decide)]
  simp only [ha, Srv.publishingKey, hs]

/-- **a metadata item on a publishing pair**: the server raises exactly one metadata event, tagged with
    the application and key, carrying the metadata the client published -/
theorem publish_metadata_item {c c1 : Cli.State} {v : Srv.State} {sid : Nat} {app key : Bytes} {mode : Srv.PublishMode}
    {n1 n2 : Nat} {m : Metadata} {r : Cli.Res}
    (hr : PublishReady c v sid app key mode) (hw : MetaWF' m) (h : Cli.publishMetadata c n1 m = (c1, .ok r)) :
    ∃ p v1, r = .out p ∧ SrvPart.drain v n2 p.bytes = (v1, .ok [.ev (.metadataChanged app key m)]) ∧
      PublishReady c1 v1 sid app key mode := by
  obtain ⟨p, body, hr1, hp, he, hc1⟩ := publishMetadata_ok hr.cst hr.cact hr.sid32 h
  have hstep : SrvSteps.steps v n2 (msgs [(p, ({ ts := epoch n1, typ := 18, msid := sid, data := body } : Msg))]) = _ :=
    srv_steps_one v _ n2 _ _ (by
      rw [srv_stepMsg_of (metaMsgC_wf m hw) hp]
      exact srv_metadata v n2 _ m app key mode hr.vapp hr.vstream)
  obtain ⟨core1, hd, hl⟩ := srv_recv n2 hr.inStep.cs he hstep
  rw [wire_one, applyMetadata_metadataProps m hw.toMetaWF] at hd
  refine ⟨p, _, hr1, hd, ⟨hl, ?_⟩, ?_, ?_, hr.sid32, hr.vconn, hr.vapp, hr.vstream⟩
  · rw [hc1]; exact hr.inStep.sc
  · rw [hc1]; exact hr.cst
  · rw [hc1]; exact hr.cact

theorem sendMetadata_ok {v v1 : Srv.State} {now sid : Nat} {m : Metadata} {p : Ser.Packet}
    (hsid : sid < 4294967296) (h : Srv.sendMetadata v now sid m = (v1, .ok p)) :
    ∃ body, toPayload (metaMsgS m) = .ok (18, body) ∧
      Emits v.ser v1.ser [(p, { ts := epoch now, typ := 18, msid := sid, data := body })] ∧ v1 = { v with ser := v1.ser } := by
  unfold Srv.sendMetadata at h
  split at h
  · simp at h
  · rename_i s2 p' hsend
    simp only [Prod.mk.injEq, Except.ok.injEq] at h
    obtain ⟨h1, h2⟩ := h
    subst h1; subst h2
    obtain ⟨typ, body, hp, he, hq⟩ := srv_send_exact hsend trivial (epoch_lt now) hsid
    have ht := data_typ hp
    subst ht
    exact ⟨body, hp, he, hq⟩

/-- the client handling exactly that data message on its active stream -/
theorem cli_metadata (c : Cli.State) (now : Nat) (p : Msg) (m : Metadata) (ha : c.activeStream = some p.msid) :
    Cli.handleMessage c now p (metaMsgS m) = (c, .ok [.ev (.metadata (applyMetadata (metadataProps m)))]) := by
  unfold metaMsgS Cli.handleMessage
  dsimp only
  unfold Cli.handleData
  simp only [ha, ne_eq, not_true_eq_false, if_false, if_true]

/-- **a metadata item on a playing pair** -/
theorem play_metadata_item {c : Cli.State} {v v1 : Srv.State} {sid : Nat} {app key : Bytes}
    {n1 n2 : Nat} {m : Metadata} {p : Ser.Packet}
    (hr : PlayReady c v sid app key) (hw : MetaWF' m) (h : Srv.sendMetadata v n1 sid m = (v1, .ok p)) :
    ∃ c1, CliPart.drain c n2 p.bytes = (c1, .ok [.ev (.metadata m)]) ∧ PlayReady c1 v1 sid app key := by
  obtain ⟨body, hp, he, hv1⟩ := sendMetadata_ok hr.sid32 h
  have hstep : CliSteps.steps c n2 (msgs [(p, ({ ts := epoch n1, typ := 18, msid := sid, data := body } : Msg))]) = _ :=
    cli_steps_one c _ n2 _ _ (by
      rw [cli_stepMsg_of (metaMsgS_wf m hw) hp, cli_metadata c n2 _ m hr.cact])
  obtain ⟨core1, hd, hl⟩ := cli_recv n2 hr.inStep.sc he hstep
  rw [wire_one, applyMetadata_metadataProps m hw.toMetaWF] at hd
  refine ⟨_, hd, ⟨?_, hl⟩, hr.cst, hr.cact, hr.sid32, ?_, ?_, ?_⟩
  · rw [hv1]; exact hr.inStep.cs
  · rw [hv1]; exact hr.vconn
  · rw [hv1]; exact hr.vapp
  · rw [hv1]; exact hr.vstream

end Rml.Workflow
