/-
The transport link between one session's serializer and the other session's deserializer:
`Link ser des` — the deserializer has consumed everything the serializer emitted and the two are in
step.  Whatever the serializer emits next (any well-formed history, any droppable packets omitted), the
deserializer decodes as exactly those messages, and they are in step again.  (Thm A ∘ Thm B, statefully.)
-/
import Rml.Lemmas.Emit
import Rml.Lemmas.DesNextMono
namespace Rml.Link
open Rml Rml.Bytes Rml.Chunk Rml.Des Rml.DesSpec Rml.SerSpec Rml.SerHist Rml.Emit

/-- Thm B along a reading that ends in `sE`: the deserializer ends related to `sE` -/
theorem reads_sim {s sE : Spec.Chunk.State} {cur cE : Option Nat} {bs : Bytes} {ms : List Msg}
    (h : Reads s cur bs ms sE cE) :
    ∀ (c : Core) (acc : List Msg), Rel s cur c →
      ∃ c', run c bs acc = { core := c', buf := [], msgs := acc ++ ms, err := none } ∧ Rel sE cE c' := by
  induction h with
  | nil s cur =>
    intro c acc hR
    exact ⟨c, by rw [run_nil hR.stage acc]; simp, hR⟩
  | step s s' cur bs rest m ms hne hso hc hmo hlt sE cE _ ih =>
    intro c acc hR
    obtain ⟨c', hdes, hR', hcs'⟩ := chunk_sim hR hso hc
    rw [run_desChunk c c' bs rest m acc hR.stage hdes]
    cases m with
    | none =>
      simp only [csAfter] at hcs'
      have : ({ s' with cs := s.cs } : Spec.Chunk.State) = s' := by
        cases s'; simp only [Spec.Chunk.State.mk.injEq, and_true]; exact hcs'.symm
      rw [this] at hR'
      obtain ⟨c2, hrun, hR2⟩ := ih c' acc hR'
      exact ⟨c2, by simpa using hrun, hR2⟩
    | some msg =>
      simp only [csAfter] at hcs'
      obtain ⟨c'', hh, hR''⟩ := honour_sim hR' hcs' hmo
      simp only [hh]
      obtain ⟨c2, hrun, hR2⟩ := ih c'' (acc ++ [msg]) hR''
      exact ⟨c2, by simpa using hrun, hR2⟩

/-- serializer and deserializer in step -/
def Linked (ser : Ser.State) (des : Des.State) : Prop :=
  ∃ sp, SR ser sp ∧ Rel sp none des.core ∧ des.buf = []

theorem linked_init : Linked {} {} := ⟨{}, SR_init, rel_init, rfl⟩

/-- **transport.**  In step before; the serializer emits `xs`; any droppable packets are omitted; the
    rest arrives (in one piece here — any partition by Thm P): exactly the messages of the remaining
    packets are decoded, no error, nothing left over, and the two are in step again. -/
theorem linked_emits {ser ser' : Ser.State} {des : Des.State} {xs : List (Ser.Packet × Msg)}
    (hl : Linked ser des) (he : Emits ser ser' xs) (mask : List Bool) :
    ∃ c', Des.feed des (wire (keepSel mask xs)) =
        { core := c', buf := [], msgs := msgs (keepSel mask xs), err := none } ∧
      Linked ser' { core := c', buf := [] } := by
  obtain ⟨sp, hSR, hRel, hbuf⟩ := hl
  obtain ⟨ops, hw, ht, hr⟩ := he
  obtain ⟨sE, hreads, hSR'⟩ := hist_reads ops ser sp mask hSR hw
  rw [ht] at hreads
  obtain ⟨c', hrun, hR'⟩ := reads_sim hreads des.core [] hRel
  refine ⟨c', ?_, sE, by rw [← hr]; exact hSR', hR', rfl⟩
  rw [feed_eq_run, hbuf]
  simpa using hrun

/-- the drain loop in terms of single `get_next_message` calls -/
theorem run_nx (n : Nat) : ∀ (c : Core) (b : Bytes) (acc : List Msg), mu c b < n →
    run c b acc =
      match (nx c b).err with
      | some e => { core := (nx c b).core, buf := (nx c b).buf, msgs := acc, err := some e }
      | none =>
        match (nx c b).msg with
        | none => { core := (nx c b).core, buf := (nx c b).buf, msgs := acc, err := none }
        | some m =>
          match honour (nx c b).core m with
          | .error e => { core := (nx c b).core, buf := (nx c b).buf, msgs := acc ++ [m], err := some e }
          | .ok c'' => run c'' (nx c b).buf (acc ++ [m]) := by
  induction n with
  | zero => intro c b acc h; omega
  | succ n ih =>
    intro c b acc hmu
    rw [run_eq c b acc, nx_eq c b]
    cases hs : stageStep c b with
    | needMore => rfl
    | err e => rfl
    | ok c' rest m =>
      have hd := stageStep_decreases c c' b rest m hs
      cases m with
      | none => simp only; exact ih c' rest acc (by omega)
      | some m => rfl

end Rml.Link
