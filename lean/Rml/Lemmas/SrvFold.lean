/-
The server's message loop on a buffer whose decoding is known: if every decoded message is handled
without changing the session (media on a publishing stream, for example), the loop returns exactly the
concatenated results and leaves the deserializer where the decoding left it.
-/
import Rml.Lemmas.Link
import Rml.Lemmas.SrvPart
namespace Rml.SrvFold
open Rml Rml.Bytes Rml.Chunk Rml.Des Rml.Msgs Rml.Sess
open Rml.Safe.S (FuelOK)

theorem honour_plain (c : Core) (m : Msg) (h : m.typ ≠ 1) : honour c m = .ok c := by
  unfold honour; simp [h]

theorem msgLoop_plain (s : Srv.State) (now : Nat) (ev : Msg → List Srv.Res) :
    ∀ (ms : List Msg) (f : Nat) (c : Core) (b : Bytes) (c' : Core) (acc : List Srv.Res),
      run c b [] = { core := c', buf := [], msgs := ms, err := none } →
      (∀ m ∈ ms, m.typ ≠ 1) →
      (∀ m ∈ ms, ∀ d : Des.State, ∃ rm, fromPayload m.typ m.data = .ok rm ∧
          Srv.handleMessage { s with des := d } now m rm = .ok ({ s with des := d }, ev m)) →
      FuelOK f { s with des := { core := c, buf := b } } →
      Srv.msgLoop f { s with des := { core := c, buf := b } } now acc =
        ({ s with des := { core := c', buf := [] } }, .ok (acc ++ ms.flatMap ev)) := by
  intro ms
  induction ms with
  | nil =>
    intro f c b c' acc hrun _ _ hf
    cases f with
    | zero => unfold FuelOK at hf; split at hf <;> omega
    | succ f =>
      rw [Link.run_nx _ c b [] (Nat.lt_succ_self _)] at hrun
      simp only [Srv.msgLoop, next_eq_nx]
      cases herr : (nx c b).err with
      | some e => simp [herr] at hrun
      | none =>
        simp only [herr] at hrun ⊢
        cases hmsg : (nx c b).msg with
        | some m =>
          simp only [hmsg] at hrun
          cases hh : honour (nx c b).core m with
          | error e => simp [hh] at hrun
          | ok c2 =>
            simp only [hh] at hrun
            have := run_acc _ c2 (nx c b).buf ([] ++ [m]) (Nat.lt_succ_self _)
            rw [this] at hrun
            simp at hrun
        | none =>
          simp only [hmsg] at hrun ⊢
          simp only [Run.mk.injEq] at hrun
          obtain ⟨h1, h2, _, _⟩ := hrun
          simp only [List.flatMap_nil, List.append_nil, h1, h2]
  | cons m ms ih =>
    intro f c b c' acc hrun hplain hhandle hf
    cases f with
    | zero => unfold FuelOK at hf; split at hf <;> omega
    | succ f =>
      rw [Link.run_nx _ c b [] (Nat.lt_succ_self _)] at hrun
      simp only [Srv.msgLoop, next_eq_nx]
      cases herr : (nx c b).err with
      | some e => simp [herr] at hrun
      | none =>
        simp only [herr] at hrun ⊢
        cases hmsg : (nx c b).msg with
        | none => simp [hmsg] at hrun
        | some m' =>
          simp only [hmsg] at hrun ⊢
          cases hh : honour (nx c b).core m' with
          | error e => simp [hh] at hrun
          | ok c2 =>
            simp only [hh] at hrun
            have hacc := run_acc _ c2 (nx c b).buf ([] ++ [m']) (Nat.lt_succ_self _)
            rw [hacc] at hrun
            simp only [List.nil_append, Run.mk.injEq, List.cons_append, List.cons.injEq] at hrun
            obtain ⟨h1, h2, ⟨hm, hms⟩, h4⟩ := hrun
            subst hm
            have hpl : m'.typ ≠ 1 := hplain m' (List.mem_cons_self ..)
            rw [honour_plain _ _ hpl] at hh
            simp only [Except.ok.injEq] at hh
            subst hh
            obtain ⟨rm, hfp, hhm⟩ := hhandle m' (List.mem_cons_self ..) { core := (nx c b).core, buf := (nx c b).buf }
            simp only [hfp, hhm]
            have hrun' : run (nx c b).core (nx c b).buf [] = { core := c', buf := [], msgs := ms, err := none } := by
              cases hr : run (nx c b).core (nx c b).buf [] with
              | mk rc rb rm' re =>
                rw [hr] at h1 h2 hms h4
                simp only at h1 h2 hms h4
                rw [h1, h2, hms, h4]
            have hf' : FuelOK f { s with des := { core := (nx c b).core, buf := (nx c b).buf } } := by
              refine SrvPart.fuelOK_step hf (p := m') ?_ ⟨rfl, rfl⟩
              show (next { core := c, buf := b }).msg = some m'
              exact hmsg
            have := ih f (nx c b).core (nx c b).buf c' (acc ++ ev m') hrun'
              (fun x hx => hplain x (List.mem_cons_of_mem _ hx))
              (fun x hx => hhandle x (List.mem_cons_of_mem _ hx)) hf'
            rw [this]
            simp [List.flatMap_cons, List.append_assoc]

end Rml.SrvFold
