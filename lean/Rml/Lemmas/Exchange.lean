/-
One hop of a conversation between the two session models, at message level.
`srv_recv` / `cli_recv`: sender's serializer and receiver's deserializer in step; the sender emits `xs`;
the bytes are delivered; then the receiver's drain loop is the message-level fold over the messages of
`xs`, and the two are in step again.  `send_exact` / `send_total`: what one `send` puts on the wire, and
that it cannot fail for a body the chunk format can carry.
-/
import Rml.Lemmas.SrvSteps
import Rml.Lemmas.CliSteps
import Rml.Props.C13
namespace Rml.Exchange
open Rml Rml.Bytes Rml.Chunk Rml.Des Rml.Msgs Rml.Sess Rml.SerHist Rml.Emit Rml.Link

theorem keepSel_nil : ∀ xs : List (Ser.Packet × Msg), keepSel [] xs = xs
  | [] => rfl
  | (p, m) :: rest => by
    unfold keepSel
    simp only [List.headD_nil, Bool.not_true, Bool.and_false, List.tail_nil]
    rw [keepSel_nil rest]; rfl

theorem linked_pos {ser : Ser.State} {des : Des.State} (h : Linked ser des) : 1 ≤ ser.maxCs := by
  obtain ⟨_, hsr, _, _⟩ := h
  exact hsr.pos

/-- client → server, everything delivered -/
theorem srv_recv {ser ser' : Ser.State} {v sF : Srv.State} {xs : List (Ser.Packet × Msg)} {rs : List Srv.Res}
    (now : Nat) (hl : Linked ser v.des) (he : Emits ser ser' xs)
    (hst : SrvSteps.steps v now (msgs xs) = .ok (sF, rs)) :
    ∃ core', SrvPart.drain v now (wire xs) = ({ sF with des := { core := core', buf := [] } }, .ok rs) ∧
      Linked ser' { core := core', buf := [] } := by
  obtain ⟨core', hfeed, hlink'⟩ := linked_emits hl he []
  rw [keepSel_nil] at hfeed
  refine ⟨core', ?_, hlink'⟩
  obtain ⟨_, _, _, hbuf⟩ := hl
  have hrun : Des.run v.des.core (wire xs) [] = { core := core', buf := [], msgs := msgs xs, err := none } := by
    rw [Des.feed_eq_run, hbuf] at hfeed; simpa using hfeed
  unfold SrvPart.drain
  have hstate : BufS.withBuf v (v.des.buf ++ wire xs) = { v with des := { core := v.des.core, buf := wire xs } } := by
    unfold BufS.withBuf; rw [hbuf]; rfl
  rw [hstate]
  have := SrvSteps.msgLoop_steps now (msgs xs) ((wire xs).length + v.des.buf.length + 2) v sF v.des.core (wire xs) core' [] rs
    hrun (by have := SrvPart.fuelOK_drain v (wire xs); rw [hstate] at this; exact this) hst
  simpa using this

/-- server → client, everything delivered -/
theorem cli_recv {ser ser' : Ser.State} {c sF : Cli.State} {xs : List (Ser.Packet × Msg)} {rs : List Cli.Res}
    (now : Nat) (hl : Linked ser c.des) (he : Emits ser ser' xs)
    (hst : CliSteps.steps c now (msgs xs) = .ok (sF, rs)) :
    ∃ core', CliPart.drain c now (wire xs) = ({ sF with des := { core := core', buf := [] } }, .ok rs) ∧
      Linked ser' { core := core', buf := [] } := by
  obtain ⟨core', hfeed, hlink'⟩ := linked_emits hl he []
  rw [keepSel_nil] at hfeed
  refine ⟨core', ?_, hlink'⟩
  obtain ⟨_, _, _, hbuf⟩ := hl
  have hrun : Des.run c.des.core (wire xs) [] = { core := core', buf := [], msgs := msgs xs, err := none } := by
    rw [Des.feed_eq_run, hbuf] at hfeed; simpa using hfeed
  unfold CliPart.drain
  have hstate : BufC.withBuf c (c.des.buf ++ wire xs) = { c with des := { core := c.des.core, buf := wire xs } } := by
    unfold BufC.withBuf; rw [hbuf]; rfl
  rw [hstate]
  have := CliSteps.msgLoop_steps now (msgs xs) ((wire xs).length + c.des.buf.length + 2) c sF c.des.core (wire xs) core' [] rs
    hrun (by have := CliPart.fuelOK_drain c (wire xs); rw [hstate] at this; exact this) hst
  simpa using this

/-- what one `sendMsg` puts on the wire -/
theorem sendMsg_exact {ser ser' : Ser.State} {m : RtmpMsg} {ts msid : Nat} {f d : Bool} {p : Ser.Packet}
    (h : sendMsg ser m ts msid f d = .ok (ser', p)) (hs : Sendable m) (hts : ts < 4294967296)
    (hmsid : msid < 4294967296) :
    ∃ typ body, toPayload m = .ok (typ, body) ∧
      Emits ser ser' [(p, { ts := ts, typ := typ, msid := msid, data := body })] := by
  unfold sendMsg at h
  cases hp : toPayload m with
  | error e => simp [hp] at h
  | ok tb =>
    obtain ⟨typ, body⟩ := tb
    simp only [hp] at h
    cases hser : Ser.serialize ser { ts := ts, typ := typ, msid := msid, data := body } f d with
    | err e => simp [hser] at h
    | hang => simp [hser] at h
    | ok r =>
      simp only [hser, Except.ok.injEq] at h
      subst h
      obtain ⟨h1, h2⟩ := toPayload_typ hs hp
      exact ⟨typ, body, rfl, Emits.msg hser hts hmsid h1 h2⟩

/-- `sendMsg` cannot fail for a message that has a payload the chunk format can carry -/
theorem sendMsg_total (ser : Ser.State) (hp : 1 ≤ ser.maxCs) {m : RtmpMsg} {typ : Nat} {body : Bytes}
    (h : toPayload m = .ok (typ, body)) (hl : body.length ≤ 16777215) (ts msid : Nat) (f d : Bool) :
    ∃ ser' p, sendMsg ser m ts msid f d = .ok (ser', p) := by
  unfold sendMsg
  simp only [h]
  unfold Ser.serialize
  have h1 : ¬ (body.length > maxMsgLen) := by simp only [maxMsgLen]; omega
  have h2 : ¬ (ser.maxCs = 0 ∧ ¬ body.isEmpty = true) := by omega
  simp only [h1, h2, if_false]
  exact ⟨_, _, rfl⟩

theorem serialize_total (ser : Ser.State) (hp : 1 ≤ ser.maxCs) (m : Msg) (hl : m.data.length ≤ 16777215) (f d : Bool) :
    ∃ ser' p, Ser.serialize ser m f d = .ok (ser', p) := by
  unfold Ser.serialize
  have h1 : ¬ (m.data.length > maxMsgLen) := by simp only [maxMsgLen]; omega
  have h2 : ¬ (ser.maxCs = 0 ∧ ¬ m.data.isEmpty = true) := by omega
  simp only [h1, h2, if_false]
  exact ⟨_, _, rfl⟩

/-- the serializer's chunk-size setter cannot fail for a size in 1..2^31-1 -/
theorem setcs_total (ser : Ser.State) (hp : 1 ≤ ser.maxCs) (n : Nat) (hn : 1 ≤ n ∧ n ≤ 2147483647) (ts : Nat) :
    ∃ ser' p, Ser.setMaxChunkSize ser n ts = .ok (ser', p) := by
  unfold Ser.setMaxChunkSize
  have h1 : ¬ (n = 0 ∨ n > maxChunkSize) := by simp only [maxChunkSize]; omega
  obtain ⟨s', p, hs⟩ := serialize_total ser hp { ts := ts, typ := 1, msid := 0, data := be32 n } (by simp [be32]) true false
  simp only [h1, if_false, hs]
  exact ⟨_, _, rfl⟩

theorem srv_stepMsg_fp {v : Srv.State} {now : Nat} {m : Msg} {rm : RtmpMsg} (h : fromPayload m.typ m.data = .ok rm) :
    SrvSteps.stepMsg v now m = Srv.handleMessage v now m rm := by
  unfold SrvSteps.stepMsg
  simp only [h]

theorem cli_stepMsg_fp {c : Cli.State} {now : Nat} {m : Msg} {rm : RtmpMsg} (h : fromPayload m.typ m.data = .ok rm) :
    CliSteps.stepMsg c now m =
      match Cli.handleMessage c now m rm with
      | (_, .error e) => .error e
      | (s2, .ok rs) => .ok (s2, rs) := by
  unfold CliSteps.stepMsg
  simp only [h]
  rfl

/-- a received message whose payload is the encoding of a well-formed `m` is handled as `m` (server) -/
theorem srv_stepMsg_of {m : RtmpMsg} {typ : Nat} {body : Bytes} (hw : C13.WF m) (h : toPayload m = .ok (typ, body))
    (v : Srv.State) (now ts msid : Nat) :
    SrvSteps.stepMsg v now { ts := ts, typ := typ, msid := msid, data := body } =
      Srv.handleMessage v now { ts := ts, typ := typ, msid := msid, data := body } m := by
  unfold SrvSteps.stepMsg
  simp only [C13.C13_roundtrip m hw typ body h]

theorem cli_stepMsg_of {m : RtmpMsg} {typ : Nat} {body : Bytes} (hw : C13.WF m) (h : toPayload m = .ok (typ, body))
    (c : Cli.State) (now ts msid : Nat) :
    CliSteps.stepMsg c now { ts := ts, typ := typ, msid := msid, data := body } =
      match Cli.handleMessage c now { ts := ts, typ := typ, msid := msid, data := body } m with
      | (_, .error e) => .error e
      | (s2, .ok rs) => .ok (s2, rs) := by
  unfold CliSteps.stepMsg
  simp only [C13.C13_roundtrip m hw typ body h]
  rfl

end Rml.Exchange
