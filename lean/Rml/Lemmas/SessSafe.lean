/-
The sessions never report the model's `hang` outcome (a loop that would not return) and their message
loops never stop for lack of model fuel: C03 "never loops without consuming input", C19 for sessions.
-/
import Rml.Lemmas.SrvEmit
import Rml.Lemmas.CliEmit
import Rml.Lemmas.DesNext
namespace Rml.Safe
open Rml Rml.Bytes Rml.Chunk Rml.Amf0 Rml.Msgs Rml.Sess Rml.Emit

theorem runAll_eq_runOps (ops : List C19.SerOp) : ∀ s, SerHist.runAll s ops = C19.runOps s ops := by
  induction ops with
  | nil => intro s; rfl
  | cons op rest ih =>
    intro s
    simp only [SerHist.runAll, C19.runOps, SerHist.after]
    cases C19.applyOp s op with
    | ok r => exact ih _
    | err e => exact ih _
    | hang => exact ih _

theorem emits_cs_pos {ser ser' : Ser.State} {xs : List (Ser.Packet × Msg)} (h : Emits ser ser' xs)
    (hp : 1 ≤ ser.maxCs) : 1 ≤ ser'.maxCs := by
  obtain ⟨ops, _, _, hr⟩ := h
  rw [← hr, runAll_eq_runOps]
  exact C19.C19_reachable_cs_pos ops ser hp

/-- an error, if any, is neither of the model's artefacts: `hang` (a loop that would not return) and
    "deserializer loop out of model fuel" -/
def NH {α : Type} (r : Except Err α) : Prop := ∀ e, r = .error e → e ≠ .hang ∧ e ≠ .chunkDes .fuel

theorem nh_ok {α : Type} (x : α) : NH (.ok x : Except Err α) := fun _ h => by cases h

theorem sendMsg_nh (ser : Ser.State) (hp : 1 ≤ ser.maxCs) (m : RtmpMsg) (ts msid : Nat) (f d : Bool) :
    NH (sendMsg ser m ts msid f d) := by
  intro e h
  unfold sendMsg at h
  split at h
  · simp only [Except.error.injEq] at h; rw [← h]; simp
  · split at h
    · simp at h
    · simp only [Except.error.injEq] at h; rw [← h]; simp
    · rename_i hser
      exact absurd hser (C19.serialize_ne_hang ser hp _ f d)

end Rml.Safe

namespace Rml.Safe.S
open Rml Rml.Bytes Rml.Chunk Rml.Amf0 Rml.Msgs Rml.Sess Rml.Emit Rml.Safe

def Safe (s : Srv.State) : Prop := 1 ≤ s.ser.maxCs

theorem send_nh (s : Srv.State) (hp : Safe s) (m : RtmpMsg) (ts msid : Nat) (f d : Bool) :
    NH (Srv.send s m ts msid f d) := by
  intro e h
  unfold Srv.send at h
  split at h
  · rename_i e' he
    simp only [Except.error.injEq] at h; rw [← h]
    exact sendMsg_nh s.ser hp m ts msid f d e' he
  · simp at h

theorem send_nh' {s : Srv.State} {m : RtmpMsg} {ts msid : Nat} {f d : Bool} {e : Err}
    (he : Srv.send s m ts msid f d = .error e) (hp : 1 ≤ s.ser.maxCs) : e ≠ .hang ∧ e ≠ .chunkDes .fuel :=
  send_nh s hp m ts msid f d e he

theorem errorOut_nh (s : Srv.State) (hp : Safe s) (now : Nat) (code desc : Bytes) (tid sid : Nat) :
    NH (Srv.errorOut s now code desc tid sid) := by
  intro e h
  unfold Srv.errorOut Srv.errorPacket at h
  split at h
  · rename_i e' he
    simp only [Except.error.injEq] at h; rw [← h]
    exact send_nh' he hp
  · simp at h

theorem handleCommand_nh (s : Srv.State) (hp : Safe s) (now sid : Nat) (name : Bytes) (tid : Nat) (obj : Val)
    (args : List Val) : NH (Srv.handleCommand s now sid name tid obj args) := by
  intro e h
  unfold Srv.handleCommand at h
  split at h
  · unfold Srv.cmdConnect at h
    (repeat' split at h) <;> simp at h <;> (rw [← h]; simp)
  · split at h
    · simp at h
    · split at h
      · unfold Srv.cmdCreateStream at h
        simp only at h
        split at h
        · rename_i e' he
          simp only [Except.error.injEq] at h; rw [← h]
          exact send_nh' he hp
        · simp at h
      · split at h
        · simp at h
        · split at h
          · unfold Srv.cmdPlay at h
            match args, h with
            | [], h => exact errorOut_nh s hp _ _ _ _ _ e h
            | a0 :: rest, h =>
              simp only at h
              (repeat' split at h)
              all_goals first
                | exact errorOut_nh s hp _ _ _ _ _ e h
                | (simp at h; done)
          · split at h
            · unfold Srv.cmdPublish at h
              match args, h with
              | [], h => exact errorOut_nh s hp _ _ _ _ _ e h
              | [_], h => exact errorOut_nh s hp _ _ _ _ _ e h
              | a0 :: a1 :: _, h =>
                simp only at h
                (repeat' split at h)
                all_goals first
                  | exact errorOut_nh s hp _ _ _ _ _ e h
                  | (simp at h; done)
                  | (rename_i e' he
                     simp only [Except.error.injEq] at h; rw [← h]
                     exact send_nh' he hp)
            · simp at h

/-- nothing but `set_max_chunk_size` touches the deserializer while a message is handled, and that
    changes neither its buffer nor its stage -/
def DesFrame (s s' : Srv.State) : Prop := s'.des.buf = s.des.buf ∧ s'.des.core.stage = s.des.core.stage

theorem send_des {s s' : Srv.State} {m : RtmpMsg} {ts msid : Nat} {f d : Bool} {p : Ser.Packet}
    (h : Srv.send s m ts msid f d = .ok (s', p)) : DesFrame s s' := by
  unfold Srv.send at h
  split at h
  · simp at h
  · simp only [Except.ok.injEq, Prod.mk.injEq] at h; rw [← h.1]; exact ⟨rfl, rfl⟩

theorem errorOut_des {s s' : Srv.State} {now : Nat} {code desc : Bytes} {tid sid : Nat} {rs : List Srv.Res}
    (h : Srv.errorOut s now code desc tid sid = .ok (s', rs)) : DesFrame s s' := by
  unfold Srv.errorOut Srv.errorPacket at h
  split at h
  · simp at h
  · rename_i s2 p hs
    simp only [Except.ok.injEq, Prod.mk.injEq] at h; rw [← h.1]; exact send_des hs

theorem closeOrDelete_des (s : Srv.State) (args : List Val) (delete : Bool) :
    DesFrame s (Srv.cmdCloseOrDelete s args delete).1 := by
  have triv : DesFrame s s := ⟨rfl, rfl⟩
  unfold Srv.cmdCloseOrDelete
  cases hconn : s.connected
  · simpa using triv
  · simp only [Bool.not_eq_true, Bool.true_eq_false, if_false, not_true_eq_false]
    cases happ : s.app with
    | none => simpa using triv
    | some app =>
      simp only
      match args with
      | [] => simpa using triv
      | .number x :: rest =>
        simp only
        cases hg : mapGet (F64.toU32 x) s.streams with
        | none => simpa using triv
        | some st => exact ⟨rfl, rfl⟩
      | .boolean _ :: _ => simpa using triv
      | .str _ :: _ => simpa using triv
      | .object _ :: _ => simpa using triv
      | .array _ :: _ => simpa using triv
      | .null :: _ => simpa using triv
      | .undefined :: _ => simpa using triv

theorem handleCommand_des {s s' : Srv.State} {now sid : Nat} {name : Bytes} {tid : Nat} {obj : Val} {args : List Val}
    {rs : List Srv.Res} (h : Srv.handleCommand s now sid name tid obj args = .ok (s', rs)) : DesFrame s s' := by
  unfold Srv.handleCommand at h
  split at h
  · unfold Srv.cmdConnect at h
    (repeat' split at h)
    all_goals first
      | (simp at h; done)
      | (simp only [Except.ok.injEq, Prod.mk.injEq] at h; rw [← h.1]; exact ⟨rfl, rfl⟩)
  · split at h
    · simp only [Except.ok.injEq] at h
      have := closeOrDelete_des s args false
      rw [h] at this; exact this
    · split at h
      · unfold Srv.cmdCreateStream at h
        simp only at h
        split at h
        · simp at h
        · rename_i s2 p hs
          simp only [Except.ok.injEq, Prod.mk.injEq] at h; rw [← h.1]
          have hd := send_des hs; exact ⟨hd.1, hd.2⟩
      · split at h
        · simp only [Except.ok.injEq] at h
          have := closeOrDelete_des s args true
          rw [h] at this; exact this
        · split at h
          · unfold Srv.cmdPlay at h
            match args, h with
            | [], h => exact errorOut_des h
            | a0 :: rest, h =>
              simp only at h
              (repeat' split at h)
              all_goals first
                | exact errorOut_des h
                | (simp only [Except.ok.injEq, Prod.mk.injEq] at h; rw [← h.1]; exact ⟨rfl, rfl⟩)
          · split at h
            · unfold Srv.cmdPublish at h
              match args, h with
              | [], h => exact errorOut_des h
              | [_], h => exact errorOut_des h
              | a0 :: a1 :: _, h =>
                simp only at h
                (repeat' split at h)
                all_goals first
                  | exact errorOut_des h
                  | (simp at h; done)
                  | (simp only [Except.ok.injEq, Prod.mk.injEq] at h; rw [← h.1]; exact ⟨rfl, rfl⟩)
                  | (rename_i s2 p hs
                     simp only [Except.ok.injEq, Prod.mk.injEq] at h; rw [← h.1]
                     have hd := send_des hs; exact ⟨hd.1, hd.2⟩)
            · simp only [Except.ok.injEq, Prod.mk.injEq] at h; rw [← h.1]; exact ⟨rfl, rfl⟩

theorem setMaxChunkSize_stage {c c' : Des.Core} {n : Nat} (h : Des.setMaxChunkSize c n = .ok c') : c'.stage = c.stage := by
  unfold Des.setMaxChunkSize at h
  split at h
  · simp at h
  · simp only [Except.ok.injEq] at h; rw [← h]

theorem handleMessage_des {s s' : Srv.State} {now : Nat} {p : Msg} {m : RtmpMsg} {rs : List Srv.Res}
    (h : Srv.handleMessage s now p m = .ok (s', rs)) : DesFrame s s' := by
  unfold Srv.handleMessage at h
  cases m with
  | amf0Command name tid obj args => exact handleCommand_des h
  | setChunkSize n =>
    simp only at h
    split at h
    · simp at h
    · rename_i c hc
      simp only [Except.ok.injEq, Prod.mk.injEq] at h; rw [← h.1]
      exact ⟨rfl, setMaxChunkSize_stage hc⟩
  | userControl ev a b ts =>
    simp only at h
    cases ev <;> simp only at h
    all_goals first
      | (simp only [Except.ok.injEq, Prod.mk.injEq] at h; rw [← h.1]; exact ⟨rfl, rfl⟩)
      | (split at h
         · simp at h
         · rename_i s2 pk hs
           simp only [Except.ok.injEq, Prod.mk.injEq] at h; rw [← h.1]
           have hd := send_des hs; exact ⟨hd.1, hd.2⟩)
  | amf0Data vals => simp only [Except.ok.injEq, Prod.mk.injEq] at h; rw [← h.1]; exact ⟨rfl, rfl⟩
  | audio d => simp only [Except.ok.injEq, Prod.mk.injEq] at h; rw [← h.1]; exact ⟨rfl, rfl⟩
  | video d => simp only [Except.ok.injEq, Prod.mk.injEq] at h; rw [← h.1]; exact ⟨rfl, rfl⟩
  | abort _ => simp only [Except.ok.injEq, Prod.mk.injEq] at h; rw [← h.1]; exact ⟨rfl, rfl⟩
  | ack n => simp only [Except.ok.injEq, Prod.mk.injEq] at h; rw [← h.1]; exact ⟨rfl, rfl⟩
  | setPeerBandwidth _ _ => simp only [Except.ok.injEq, Prod.mk.injEq] at h; rw [← h.1]; exact ⟨rfl, rfl⟩
  | windowAck n => simp only [Except.ok.injEq, Prod.mk.injEq] at h; rw [← h.1]; exact ⟨rfl, rfl⟩
  | unknown _ _ => simp only [Except.ok.injEq, Prod.mk.injEq] at h; rw [← h.1]; exact ⟨rfl, rfl⟩

theorem handleMessage_nh (s : Srv.State) (hp : Safe s) (now : Nat) (p : Msg) (m : RtmpMsg) :
    NH (Srv.handleMessage s now p m) := by
  intro e h
  unfold Srv.handleMessage at h
  cases m with
  | amf0Command name tid obj args => exact handleCommand_nh s hp _ _ _ _ _ _ e h
  | setChunkSize n =>
    simp only at h
    split at h
    · rename_i e2 hc2
      simp only [Except.error.injEq] at h; rw [← h]
      refine ⟨by simp, ?_⟩
      intro hh
      simp only [Err.chunkDes.injEq] at hh
      rw [hh] at hc2
      unfold Des.setMaxChunkSize at hc2
      split at hc2 <;> simp at hc2
    · simp at h
  | userControl ev a b ts =>
    simp only at h
    cases ev <;> simp only at h
    all_goals first
      | (simp at h; done)
      | (split at h
         · rename_i e' he
           simp only [Except.error.injEq] at h; rw [← h]
           exact send_nh' he hp
         · simp at h)
  | amf0Data vals => simp at h
  | audio d => simp at h
  | video d => simp at h
  | abort _ => simp at h
  | ack n => simp at h
  | setPeerBandwidth _ _ => simp at h
  | windowAck n => simp at h
  | unknown _ _ => simp at h

/-- the model's loop fuel covers what is left to do: one iteration per message still in the buffer (each
    takes at least its basic-header byte), one for a message already under way, one to find the buffer dry -/
def FuelOK (f : Nat) (s : Srv.State) : Prop :=
  s.des.buf.length + (if s.des.core.stage = .csid then 1 else 2) ≤ f

/-- neither `hang` nor "out of model fuel" -/
def Fine (r : Except Err (List Srv.Res)) : Prop := NH r ∧ r ≠ .error (.chunkDes .fuel)

theorem msgLoop_safe (f : Nat) : ∀ (s s' : Srv.State) (now : Nat) (acc : List Srv.Res) (r : Except Err (List Srv.Res)),
    SrvEmit.Inv s → Safe s → FuelOK f s → Srv.msgLoop f s now acc = (s', r) → Fine r := by
  induction f with
  | zero =>
    intro s s' now acc r _ _ hf _
    unfold FuelOK at hf
    split at hf <;> omega
  | succ f ih =>
    intro s s' now acc r hi hp hf h
    simp only [Srv.msgLoop] at h
    obtain ⟨n1, n2, n3⟩ := Des.next_facts s.des
    obtain ⟨hc1, hm1⟩ := Des.next_ok s.des hi.1
    have hi1 : SrvEmit.Inv { s with des := { core := (Des.next s.des).core, buf := (Des.next s.des).buf } } := ⟨hc1, hi.2⟩
    split at h
    · rename_i e he
      simp only [Prod.mk.injEq] at h; rw [← h.2]
      have hne : e ≠ Des.Err.fuel := fun hx => by rw [hx] at he; exact n1 he
      refine ⟨fun e' hh => by simp only [Except.error.injEq] at hh; rw [← hh]; exact ⟨by simp, by simpa using hne⟩, ?_⟩
      intro hh
      simp only [Except.error.injEq, Err.chunkDes.injEq] at hh
      exact hne hh
    · split at h
      · simp only [Prod.mk.injEq] at h; rw [← h.2]; exact ⟨nh_ok _, by simp⟩
      · rename_i p hp'
        obtain ⟨k1, k2⟩ := n3 p hp'
        split at h
        · simp only [Prod.mk.injEq] at h; rw [← h.2]
          exact ⟨fun e' hh => by simp only [Except.error.injEq] at hh; rw [← hh]; simp, by simp⟩
        · rename_i m hm
          split at h
          · rename_i e he
            simp only [Prod.mk.injEq] at h; rw [← h.2]
            have := handleMessage_nh _ (show Safe { s with des := { core := (Des.next s.des).core, buf := (Des.next s.des).buf } } from hp) now p m e he
            exact ⟨fun e' hh => by simp only [Except.error.injEq] at hh; rw [← hh]; exact this,
              fun hh => by simp only [Except.error.injEq] at hh; exact this.2 hh⟩
          · rename_i s2 rs2 hmsg
            have hst := SrvEmit.step_handleMessage (hm1 p hp') hmsg
            have hd := handleMessage_des hmsg
            have hp2 : Safe s2 := by
              obtain ⟨xs, ex, _, _⟩ := hst.1
              exact emits_cs_pos ex hp
            refine ih s2 s' now _ r (hst.2 hi1) hp2 ?_ h
            unfold FuelOK at hf ⊢
            rw [hd.1, hd.2]
            simp only [k1, if_true]
            split at hf
            · rename_i hcs
              have := k2 hcs
              omega
            · omega

/-- **server, any input.**  From every state that keeps the session invariant and a positive outbound
    chunk size, for every byte string: `handle_input` returns results or a real error — never the
    model's `hang`, never "loop out of fuel" -/
theorem handleInput_safe (s : Srv.State) (now : Nat) (bytes : Bytes) (hi : SrvEmit.Inv s) (hp : Safe s) :
    Fine (Srv.handleInput s now bytes).2 := by
  have hx : Srv.handleInput s now bytes = ((Srv.handleInput s now bytes).1, (Srv.handleInput s now bytes).2) := rfl
  generalize (Srv.handleInput s now bytes).1 = s' at hx
  generalize (Srv.handleInput s now bytes).2 = r at hx
  unfold Srv.handleInput at hx
  simp only at hx
  have hfuel : ∀ st : Srv.State, st.des.buf = s.des.buf ++ bytes →
      FuelOK (bytes.length + s.des.buf.length + 2) st := by
    intro st hb
    unfold FuelOK
    rw [hb, List.length_append]
    split <;> omega
  split at hx
  · have key := fun a b c => msgLoop_safe _ _ s' now [] r a b c hx
    exact key ⟨hi.1, hi.2⟩ hp (hfuel _ rfl)
  · split at hx
    · rename_i n hack e he
      simp only [Prod.mk.injEq] at hx; rw [← hx.2]
      have := send_nh' he hp
      exact ⟨fun e' hh => by simp only [Except.error.injEq] at hh; rw [← hh]; exact this,
        fun hh => by simp only [Except.error.injEq] at hh; exact this.2 hh⟩
    · rename_i n hack s1 p hs
      have hst := SrvEmit.step_send hs trivial (SrvEmit.epoch_lt now) (by show (0 : Nat) < 4294967296; omega)
      have hd := send_des hs
      have hp1 : Safe s1 := by
        obtain ⟨xs, ex, _, _⟩ := hst.1
        exact emits_cs_pos ex hp
      have hi1 := hst.2 (show SrvEmit.Inv _ from ⟨hi.1, hi.2⟩)
      have key := fun a b c => msgLoop_safe _ _ s' now [.out p] r a b c hx
      exact key ⟨hi1.1, hi1.2⟩ hp1 (hfuel _ hd.1)

/-- every state a server session reaches keeps both -/
theorem reach (c : Srv.Config) (now : Nat) (s0 : Srv.State) (rs0 : List Srv.Res) (ops : List SrvEmit.Op)
    (hnew : Srv.new c now = .ok (s0, rs0)) (hw : ∀ op ∈ ops, op.WF) (hk : SrvEmit.ErrKeepsSer s0 ops) :
    SrvEmit.Inv (SrvEmit.run s0 ops).1 ∧ Safe (SrvEmit.run s0 ops).1 := by
  obtain ⟨x0, e0, _, hinv⟩ := SrvEmit.new_emits hnew
  obtain ⟨⟨x1, e1, _, _⟩, hi⟩ := SrvEmit.run_step ops s0 hinv hw hk
  exact ⟨hi, emits_cs_pos (e0.trans e1) (by decide)⟩

end Rml.Safe.S

namespace Rml.Safe.C
open Rml Rml.Bytes Rml.Chunk Rml.Amf0 Rml.Msgs Rml.Sess Rml.Emit Rml.Safe

def Safe (s : Cli.State) : Prop := 1 ≤ s.ser.maxCs

theorem send_nh' {s : Cli.State} {m : RtmpMsg} {ts msid : Nat} {d : Bool} {e : Err}
    (he : Cli.send s m ts msid d = .error e) (hp : 1 ≤ s.ser.maxCs) : e ≠ .hang ∧ e ≠ .chunkDes .fuel := by
  unfold Cli.send at he
  split at he
  · rename_i e' h'
    simp only [Except.error.injEq] at he; rw [← he]
    exact sendMsg_nh s.ser hp m ts msid false d e' h'
  · simp at he

def DesFrame (s s' : Cli.State) : Prop := s'.des.buf = s.des.buf ∧ s'.des.core.stage = s.des.core.stage

theorem send_frame {s s' : Cli.State} {m : RtmpMsg} {ts msid : Nat} {d : Bool} {p : Ser.Packet}
    (h : Cli.send s m ts msid d = .ok (s', p)) : DesFrame s s' ∧ (Safe s → Safe s') := by
  unfold Cli.send at h
  split at h
  · simp at h
  · rename_i ser' p' hm
    simp only [Except.ok.injEq, Prod.mk.injEq] at h; rw [← h.1]
    refine ⟨⟨rfl, rfl⟩, fun hp => ?_⟩
    unfold sendMsg at hm
    split at hm
    · simp at hm
    · split at hm
      · rename_i r hser
        simp only [Except.ok.injEq] at hm
        rw [hm] at hser
        show 1 ≤ ser'.maxCs
        rw [C19.serialize_maxCs _ _ _ _ _ _ hser]; exact hp
      · simp at hm
      · simp at hm

theorem setcs_ne_hang (ser : Ser.State) (hp : 1 ≤ ser.maxCs) (n ts : Nat) : Ser.setMaxChunkSize ser n ts ≠ .hang := by
  unfold Ser.setMaxChunkSize
  split
  · simp
  · have := C19.serialize_ne_hang ser hp { ts := ts, typ := 1, msid := 0, data := Bytes.be32 n } true false
    cases hser : Ser.serialize ser { ts := ts, typ := 1, msid := 0, data := Bytes.be32 n } true false with
    | ok r => simp
    | err e => simp
    | hang => exact absurd hser this

theorem handleResult_nh (s : Cli.State) (hp : Safe s) (now tid : Nat) (obj : Val) (args : List Val) :
    NH (Cli.handleResult s now tid obj args) := by
  intro e h
  unfold Cli.handleResult at h
  simp only at h
  cases hg : mapGet (F64.toU32 tid) s.txns with
  | none => simp [hg] at h
  | some txn =>
    simp only [hg] at h
    cases txn with
    | connection app =>
      simp only at h
      split at h
      · rename_i e' he
        simp only [Except.error.injEq] at h; rw [← h]; exact send_nh' he hp
      · rename_i s2 p1 hs1
        have hp2 := (send_frame hs1).2 hp
        cases hcs : Ser.setMaxChunkSize s2.ser s.cfg.chunkSize 0 with
        | err e2 => simp only [hcs, Except.error.injEq] at h; rw [← h]; simp
        | hang => exact absurd hcs (setcs_ne_hang s2.ser hp2 _ _)
        | ok q => simp [hcs] at h
    | createStream purpose =>
      simp only at h
      match args, h with
      | [], h => simp only [Except.error.injEq] at h; rw [← h]; simp
      | .number n :: rest, h =>
        simp only at h
        cases purpose with
        | play k =>
          simp only at h
          split at h
          · rename_i e' he
            simp only [Except.error.injEq] at h; rw [← h]; exact send_nh' he hp
          · rename_i s3 p1 hs1
            have hp3 := (send_frame hs1).2 hp
            split at h
            · rename_i e' he
              simp only [Except.error.injEq] at h; rw [← h]; exact send_nh' he hp3
            · simp at h
        | publish k t =>
          simp only at h
          split at h
          · rename_i e' he
            simp only [Except.error.injEq] at h; rw [← h]; exact send_nh' he hp
          · simp at h
      | .boolean _ :: _, h => simp only [Except.error.injEq] at h; rw [← h]; simp
      | .str _ :: _, h => simp only [Except.error.injEq] at h; rw [← h]; simp
      | .object _ :: _, h => simp only [Except.error.injEq] at h; rw [← h]; simp
      | .array _ :: _, h => simp only [Except.error.injEq] at h; rw [← h]; simp
      | .null :: _, h => simp only [Except.error.injEq] at h; rw [← h]; simp
      | .undefined :: _, h => simp only [Except.error.injEq] at h; rw [← h]; simp

theorem handleError_nh (s : Cli.State) (tid : Nat) (obj : Val) (args : List Val) : NH (Cli.handleError s tid obj args) := by
  intro e h
  unfold Cli.handleError at h
  simp only at h
  (repeat' split at h) <;> simp at h <;> (rw [← h]; simp)

theorem handleOnStatus_nh (s : Cli.State) (args : List Val) : NH (Cli.handleOnStatus s args) := by
  intro e h
  unfold Cli.handleOnStatus at h
  (repeat' split at h) <;> simp at h <;> (rw [← h]; simp)

theorem handleMedia_nh (s : Cli.State) (v : Bool) (sid : Nat) (d : Bytes) (ts : Nat) : NH (Cli.handleMedia s v sid d ts) := by
  intro e h
  unfold Cli.handleMedia at h
  (repeat' split at h) <;> simp at h <;> (rw [← h]; simp)

theorem handleResult_des {s s' : Cli.State} {now tid : Nat} {obj : Val} {args : List Val} {rs : List Cli.Res}
    (h : Cli.handleResult s now tid obj args = .ok (s', rs)) : DesFrame s s' := by
  unfold Cli.handleResult at h
  simp only at h
  cases hg : mapGet (F64.toU32 tid) s.txns with
  | none => simp only [hg, Except.ok.injEq, Prod.mk.injEq] at h; rw [← h.1]; exact ⟨rfl, rfl⟩
  | some txn =>
    simp only [hg] at h
    cases txn with
    | connection app =>
      simp only at h
      split at h
      · simp at h
      · rename_i s2 p1 hs1
        have f1 := (send_frame hs1).1
        cases hcs : Ser.setMaxChunkSize s2.ser s.cfg.chunkSize 0 with
        | err e2 => simp [hcs] at h
        | hang => simp [hcs] at h
        | ok q =>
          obtain ⟨ser3, p2⟩ := q
          simp only [hcs, Except.ok.injEq, Prod.mk.injEq] at h; rw [← h.1]
          exact ⟨f1.1, f1.2⟩
    | createStream purpose =>
      simp only at h
      match args, h with
      | [], h => simp at h
      | .number n :: rest, h =>
        simp only at h
        cases purpose with
        | play k =>
          simp only at h
          split at h
          · simp at h
          · rename_i s3 p1 hs1
            have f1 := (send_frame hs1).1
            split at h
            · simp at h
            · rename_i s4 p2 hs2
              have f2 := (send_frame hs2).1
              simp only [Except.ok.injEq, Prod.mk.injEq] at h; rw [← h.1]
              exact ⟨f2.1.trans f1.1, f2.2.trans f1.2⟩
        | publish k t =>
          simp only at h
          split at h
          · simp at h
          · rename_i s3 p1 hs1
            have f1 := (send_frame hs1).1
            simp only [Except.ok.injEq, Prod.mk.injEq] at h; rw [← h.1]
            exact ⟨f1.1, f1.2⟩
      | .boolean _ :: _, h => simp at h
      | .str _ :: _, h => simp at h
      | .object _ :: _, h => simp at h
      | .array _ :: _, h => simp at h
      | .null :: _, h => simp at h
      | .undefined :: _, h => simp at h

theorem handleError_des {s s' : Cli.State} {tid : Nat} {obj : Val} {args : List Val} {rs : List Cli.Res}
    (h : Cli.handleError s tid obj args = .ok (s', rs)) : DesFrame s s' := by
  unfold Cli.handleError at h
  simp only at h
  (repeat' split at h)
  all_goals first
    | (simp at h; done)
    | (simp only [Except.ok.injEq, Prod.mk.injEq] at h; rw [← h.1]; exact ⟨rfl, rfl⟩)

theorem handleOnStatus_des {s s' : Cli.State} {args : List Val} {rs : List Cli.Res}
    (h : Cli.handleOnStatus s args = .ok (s', rs)) : DesFrame s s' := by
  unfold Cli.handleOnStatus at h
  (repeat' split at h)
  all_goals first
    | (simp at h; done)
    | (simp only [Except.ok.injEq, Prod.mk.injEq] at h; rw [← h.1]; exact ⟨rfl, rfl⟩)

/-- one decoded message on the client: no artefact error; on success the deserializer's buffer and stage
    are untouched -/
theorem handleMessage_facts (s : Cli.State) (hp : Safe s) (now : Nat) (p : Msg) (m : RtmpMsg) :
    NH (Cli.handleMessage s now p m).2 ∧
    (∀ rs, (Cli.handleMessage s now p m).2 = .ok rs → DesFrame s (Cli.handleMessage s now p m).1) := by
  have same : ∀ rs0 : List Cli.Res, NH (Except.ok rs0 : Except Err (List Cli.Res)) ∧
      (∀ rs, (Except.ok rs0 : Except Err (List Cli.Res)) = .ok rs → DesFrame s s) :=
    fun rs0 => ⟨nh_ok _, fun _ _ => ⟨rfl, rfl⟩⟩
  unfold Cli.handleMessage
  cases m with
  | ack n => exact same _
  | amf0Command name tid obj args =>
    simp only
    split
    · cases hr : Cli.handleResult s now tid obj args with
      | ok q => obtain ⟨s2, rs2⟩ := q; exact ⟨nh_ok _, fun _ _ => handleResult_des hr⟩
      | error e =>
        exact ⟨fun e' hh => by simp only [Except.error.injEq] at hh; rw [← hh]; exact handleResult_nh s hp _ _ _ _ e hr,
          fun rs hh => by cases hh⟩
    · split
      · cases hr : Cli.handleError s tid obj args with
        | ok q => obtain ⟨s2, rs2⟩ := q; exact ⟨nh_ok _, fun _ _ => handleError_des hr⟩
        | error e =>
          exact ⟨fun e' hh => by simp only [Except.error.injEq] at hh; rw [← hh]; exact handleError_nh s _ _ _ e hr,
            fun rs hh => by cases hh⟩
      · split
        · cases hr : Cli.handleOnStatus s args with
          | ok q => obtain ⟨s2, rs2⟩ := q; exact ⟨nh_ok _, fun _ _ => handleOnStatus_des hr⟩
          | error e =>
            exact ⟨fun e' hh => by simp only [Except.error.injEq] at hh; rw [← hh]; exact handleOnStatus_nh s _ e hr,
              fun rs hh => by cases hh⟩
        · exact same _
  | amf0Data vals => exact same _
  | audio d =>
    simp only
    cases hm : Cli.handleMedia s false p.msid d p.ts with
    | ok r0 => exact ⟨nh_ok _, fun _ _ => ⟨rfl, rfl⟩⟩
    | error e =>
      exact ⟨fun e' hh => by simp only [Except.error.injEq] at hh; rw [← hh]; exact handleMedia_nh s _ _ _ _ e hm,
        fun rs hh => by cases hh⟩
  | video d =>
    simp only
    cases hm : Cli.handleMedia s true p.msid d p.ts with
    | ok r0 => exact ⟨nh_ok _, fun _ _ => ⟨rfl, rfl⟩⟩
    | error e =>
      exact ⟨fun e' hh => by simp only [Except.error.injEq] at hh; rw [← hh]; exact handleMedia_nh s _ _ _ _ e hm,
        fun rs hh => by cases hh⟩
  | userControl ev a b ts =>
    simp only
    cases ev <;> simp only
    all_goals first
      | exact same _
      | (cases hs : Cli.send s (.userControl .pingResponse none none ts) (epoch now) 0 with
         | ok q => obtain ⟨s2, pk⟩ := q; exact ⟨nh_ok _, fun _ _ => (send_frame hs).1⟩
         | error e =>
           exact ⟨fun e' hh => by simp only [Except.error.injEq] at hh; rw [← hh]; exact send_nh' hs hp,
             fun rs hh => by cases hh⟩)
  | windowAck n => exact ⟨nh_ok _, fun _ _ => ⟨rfl, rfl⟩⟩
  | setChunkSize n =>
    simp only
    cases hc : Des.setMaxChunkSize s.des.core n with
    | ok c => exact ⟨nh_ok _, fun _ _ => ⟨rfl, S.setMaxChunkSize_stage hc⟩⟩
    | error e =>
      refine ⟨fun e' hh => ?_, fun rs hh => by cases hh⟩
      simp only [Except.error.injEq] at hh; rw [← hh]
      refine ⟨by simp, ?_⟩
      intro hx
      simp only [Err.chunkDes.injEq] at hx
      rw [hx] at hc
      unfold Des.setMaxChunkSize at hc
      split at hc <;> simp at hc
  | abort _ => exact same _
  | setPeerBandwidth _ _ => exact same _
  | unknown _ _ => exact same _

def FuelOK (f : Nat) (s : Cli.State) : Prop :=
  s.des.buf.length + (if s.des.core.stage = .csid then 1 else 2) ≤ f

def Fine (r : Except Err (List Cli.Res)) : Prop := NH r ∧ r ≠ .error (.chunkDes .fuel)

theorem fine_of_nh {r : Except Err (List Cli.Res)} (h : NH r) : Fine r :=
  ⟨h, fun hh => (h _ hh).2 rfl⟩

theorem msgLoop_safe (f : Nat) : ∀ (s s' : Cli.State) (now : Nat) (acc : List Cli.Res) (r : Except Err (List Cli.Res)),
    CliEmit.Inv s → Safe s → FuelOK f s → Cli.msgLoop f s now acc = (s', r) → Fine r := by
  induction f with
  | zero =>
    intro s s' now acc r _ _ hf _
    unfold FuelOK at hf
    split at hf <;> omega
  | succ f ih =>
    intro s s' now acc r hi hp hf h
    simp only [Cli.msgLoop] at h
    obtain ⟨n1, n2, n3⟩ := Des.next_facts s.des
    obtain ⟨hc1, hm1⟩ := Des.next_ok s.des hi.1
    have hi1 : CliEmit.Inv { s with des := { core := (Des.next s.des).core, buf := (Des.next s.des).buf } } := ⟨hc1, hi.2⟩
    have hp1 : Safe { s with des := { core := (Des.next s.des).core, buf := (Des.next s.des).buf } } := hp
    split at h
    · rename_i e he
      simp only [Prod.mk.injEq] at h; rw [← h.2]
      have hne : e ≠ Des.Err.fuel := fun hx => by rw [hx] at he; exact n1 he
      apply fine_of_nh
      intro e' hh
      simp only [Except.error.injEq] at hh; rw [← hh]; exact ⟨by simp, by simpa using hne⟩
    · split at h
      · simp only [Prod.mk.injEq] at h; rw [← h.2]; exact fine_of_nh (nh_ok _)
      · rename_i p hp'
        obtain ⟨k1, k2⟩ := n3 p hp'
        split at h
        · simp only [Prod.mk.injEq] at h; rw [← h.2]
          exact fine_of_nh (fun e' hh => by simp only [Except.error.injEq] at hh; rw [← hh]; simp)
        · rename_i m hm
          obtain ⟨hnh, hdes⟩ := handleMessage_facts _ hp1 now p m
          split at h
          · rename_i s2 e hmsg
            simp only [Prod.mk.injEq] at h; rw [← h.2]
            rw [hmsg] at hnh
            exact fine_of_nh hnh
          · rename_i s2 rs2 hmsg
            obtain ⟨hi2, hem2⟩ := CliEmit.handleMessage_step hi1 hmsg
            have hd : DesFrame { s with des := { core := (Des.next s.des).core, buf := (Des.next s.des).buf } } s2 := by
              have := hdes rs2 (by rw [hmsg])
              rw [hmsg] at this; exact this
            have hp2 : Safe s2 := by
              obtain ⟨xs, ex, _, _⟩ := hem2 rs2 rfl
              exact emits_cs_pos ex hp1
            refine ih s2 s' now _ r hi2 hp2 ?_ h
            unfold FuelOK at hf ⊢
            rw [hd.1, hd.2]
            simp only [k1, if_true]
            split at hf
            · rename_i hcs
              have := k2 hcs
              omega
            · omega

/-- **client, any input** -/
theorem handleInput_safe (s : Cli.State) (now : Nat) (bytes : Bytes) (hi : CliEmit.Inv s) (hp : Safe s) :
    Fine (Cli.handleInput s now bytes).2 := by
  have hx : Cli.handleInput s now bytes = ((Cli.handleInput s now bytes).1, (Cli.handleInput s now bytes).2) := rfl
  generalize (Cli.handleInput s now bytes).1 = s' at hx
  generalize (Cli.handleInput s now bytes).2 = r at hx
  unfold Cli.handleInput at hx
  simp only at hx
  have hfuel : ∀ st : Cli.State, st.des.buf = s.des.buf ++ bytes →
      FuelOK (bytes.length + s.des.buf.length + 2) st := by
    intro st hb
    unfold FuelOK
    rw [hb, List.length_append]
    split <;> omega
  split at hx
  · have key := fun a b c => msgLoop_safe _ _ s' now [] r a b c hx
    exact key ⟨hi.1, hi.2⟩ hp (hfuel _ rfl)
  · split at hx
    · rename_i n hack e he
      simp only [Prod.mk.injEq] at hx; rw [← hx.2]
      exact fine_of_nh (fun e' hh => by simp only [Except.error.injEq] at hh; rw [← hh]; exact send_nh' he hp)
    · rename_i n hack s1 p hs
      have hst := CliEmit.step_send hs trivial (CliEmit.epoch_lt now) (by show (0 : Nat) < 4294967296; omega)
      obtain ⟨hd, hsf⟩ := send_frame hs
      have hi1 := hst.2 (show CliEmit.Inv _ from ⟨hi.1, hi.2⟩)
      have key := fun a b c => msgLoop_safe _ _ s' now [.out p] r a b c hx
      exact key ⟨hi1.1, hi1.2⟩ (hsf hp) (hfuel _ hd.1)

theorem reach (cfg : Cli.Config) (ops : List CliEmit.Op) (hw : ∀ op ∈ ops, op.WF)
    (hk : CliEmit.ErrKeepsSer { cfg := cfg } ops) :
    CliEmit.Inv (CliEmit.run { cfg := cfg } ops).1 ∧ Safe (CliEmit.run { cfg := cfg } ops).1 := by
  obtain ⟨⟨x1, e1, _, _⟩, hi⟩ := CliEmit.run_step ops { cfg := cfg } (CliEmit.inv_fresh cfg) hw hk
  exact ⟨hi, emits_cs_pos e1 (by show (1 : Nat) ≤ 128; omega)⟩

end Rml.Safe.C
