/-
The sessions never report the model's `hang` outcome (a loop that would not return) and their message
loops never stop for lack of model fuel: C03 "never loops without consuming input", C19 for sessions.
-/
import Rml.Lemmas.SrvEmit
import Rml.Lemmas.CliEmit
import Rml.Lemmas.DesNext
namespace Rml.Safe
open Rml Rml.Bytes Rml.Chunk Rml.Amf0 Rml.Msgs Rml.Sess Rml.Emit

theorem runAll_eq_runOps (ops : List C19.SerOp) : ∀ s, runAll s ops = C19.runOps s ops := by
  induction ops with
  | nil => intro s; rfl
  | cons op rest ih =>
    intro s
    simp only [runAll, C19.runOps, SerHist.after]
    cases C19.applyOp s op with
    | ok r => exact ih _
    | err e => exact ih _
    | hang => exact ih _

theorem emits_cs_pos {ser ser' : Ser.State} {xs : List (Ser.Packet × Msg)} (h : Emits ser ser' xs)
    (hp : 1 ≤ ser.maxCs) : 1 ≤ ser'.maxCs := by
  obtain ⟨ops, _, _, hr⟩ := h
  rw [← hr, runAll_eq_runOps]
  exact C19.C19_reachable_cs_pos ops ser hp

/-- no-hang: an error, if any, is not the artefact `hang` -/
def NH {α : Type} (r : Except Err α) : Prop := ∀ e, r = .error e → e ≠ .hang

theorem nh_ok {α : Type} (x : α) : NH (.ok x : Except Err α) := fun _ h => by cases h

theorem sendMsg_nh (ser : Ser.State) (hp : 1 ≤ ser.maxCs) (m : RtmpMsg) (ts msid : Nat) (f d : Bool) :
    NH (sendMsg ser m ts msid f d) := by
  intro e h
  unfold sendMsg at h
  split at h
  · simp only [Except.error.injEq] at h; rw [← h]; simp
  · split at h
    · simp at h
    · simp only [Except.error.injEq] at h; rw [← h]; simp
    · rename_i hser
      exact absurd hser (C19.serialize_ne_hang ser hp _ f d)

end Rml.Safe

namespace Rml.Safe.S
open Rml Rml.Bytes Rml.Chunk Rml.Amf0 Rml.Msgs Rml.Sess Rml.Emit Rml.Safe

def Safe (s : Srv.State) : Prop := 1 ≤ s.ser.maxCs

theorem send_nh (s : Srv.State) (hp : Safe s) (m : RtmpMsg) (ts msid : Nat) (f d : Bool) :
    NH (Srv.send s m ts msid f d) := by
  intro e h
  unfold Srv.send at h
  split at h
  · rename_i e' he
    simp only [Except.error.injEq] at h; rw [← h]
    exact sendMsg_nh s.ser hp m ts msid f d e' he
  · simp at h

theorem send_nh' {s : Srv.State} {m : RtmpMsg} {ts msid : Nat} {f d : Bool} {e : Err}
    (he : Srv.send s m ts msid f d = .error e) (hp : 1 ≤ s.ser.maxCs) : e ≠ .hang :=
  send_nh s hp m ts msid f d e he

theorem errorOut_nh (s : Srv.State) (hp : Safe s) (now : Nat) (code desc : Bytes) (tid sid : Nat) :
    NH (Srv.errorOut s now code desc tid sid) := by
  intro e h
  unfold Srv.errorOut Srv.errorPacket at h
  split at h
  · rename_i e' he
    simp only [Except.error.injEq] at h; rw [← h]
    exact send_nh' he hp
  · simp at h

theorem handleCommand_nh (s : Srv.State) (hp : Safe s) (now sid : Nat) (name : Bytes) (tid : Nat) (obj : Val)
    (args : List Val) : NH (Srv.handleCommand s now sid name tid obj args) := by
  intro e h
  unfold Srv.handleCommand at h
  split at h
  · unfold Srv.cmdConnect at h
    (repeat' split at h) <;> simp at h <;> (rw [← h]; simp)
  · split at h
    · simp at h
    · split at h
      · unfold Srv.cmdCreateStream at h
        simp only at h
        split at h
        · rename_i e' he
          simp only [Except.error.injEq] at h; rw [← h]
          exact send_nh' he hp
        · simp at h
      · split at h
        · simp at h
        · split at h
          · unfold Srv.cmdPlay at h
            match args, h with
            | [], h => exact errorOut_nh s hp _ _ _ _ _ e h
            | a0 :: rest, h =>
              simp only at h
              (repeat' split at h)
              all_goals first
                | exact errorOut_nh s hp _ _ _ _ _ e h
                | (simp at h; done)
          · split at h
            · unfold Srv.cmdPublish at h
              match args, h with
              | [], h => exact errorOut_nh s hp _ _ _ _ _ e h
              | [_], h => exact errorOut_nh s hp _ _ _ _ _ e h
              | a0 :: a1 :: _, h =>
                simp only at h
                (repeat' split at h)
                all_goals first
                  | exact errorOut_nh s hp _ _ _ _ _ e h
                  | (simp at h; done)
                  | (rename_i e' he
                     simp only [Except.error.injEq] at h; rw [← h]
                     exact send_nh' he hp)
            · simp at h

/-- nothing but `set_max_chunk_size` touches the deserializer while a message is handled, and that
    changes neither its buffer nor its stage -/
def DesFrame (s s' : Srv.State) : Prop := s'.des.buf = s.des.buf ∧ s'.des.core.stage = s.des.core.stage

theorem send_des {s s' : Srv.State} {m : RtmpMsg} {ts msid : Nat} {f d : Bool} {p : Ser.Packet}
    (h : Srv.send s m ts msid f d = .ok (s', p)) : DesFrame s s' := by
  unfold Srv.send at h
  split at h
  · simp at h
  · simp only [Except.ok.injEq, Prod.mk.injEq] at h; rw [← h.1]; exact ⟨rfl, rfl⟩

theorem errorOut_des {s s' : Srv.State} {now : Nat} {code desc : Bytes} {tid sid : Nat} {rs : List Srv.Res}
    (h : Srv.errorOut s now code desc tid sid = .ok (s', rs)) : DesFrame s s' := by
  unfold Srv.errorOut Srv.errorPacket at h
  split at h
  · simp at h
  · rename_i s2 p hs
    simp only [Except.ok.injEq, Prod.mk.injEq] at h; rw [← h.1]; exact send_des hs

theorem closeOrDelete_des (s : Srv.State) (args : List Val) (delete : Bool) :
    DesFrame s (Srv.cmdCloseOrDelete s args delete).1 := by
  have triv : DesFrame s s := ⟨rfl, rfl⟩
  unfold Srv.cmdCloseOrDelete
  cases hconn : s.connected
  · simpa using triv
  · simp only [Bool.not_eq_true, Bool.true_eq_false, if_false, not_true_eq_false]
    cases happ : s.app with
    | none => simpa using triv
    | some app =>
      simp only
      match args with
      | [] => simpa using triv
      | .number x :: rest =>
        simp only
        cases hg : mapGet (F64.toU32 x) s.streams with
        | none => simpa using triv
        | some st => exact ⟨rfl, rfl⟩
      | .boolean _ :: _ => simpa using triv
      | .str _ :: _ => simpa using triv
      | .object _ :: _ => simpa using triv
      | .array _ :: _ => simpa using triv
      | .null :: _ => simpa using triv
      | .undefined :: _ => simpa using triv

theorem handleCommand_des {s s' : Srv.State} {now sid : Nat} {name : Bytes} {tid : Nat} {obj : Val} {args : List Val}
    {rs : List Srv.Res} (h : Srv.handleCommand s now sid name tid obj args = .ok (s', rs)) : DesFrame s s' := by
  unfold Srv.handleCommand at h
  split at h
  · unfold Srv.cmdConnect at h
    (repeat' split at h)
    all_goals first
      | (simp at h; done)
      | (simp only [Except.ok.injEq, Prod.mk.injEq] at h; rw [← h.1]; exact ⟨rfl, rfl⟩)
  · split at h
    · simp only [Except.ok.injEq] at h
      have := closeOrDelete_des s args false
      rw [h] at this; exact this
    · split at h
      · unfold Srv.cmdCreateStream at h
        simp only at h
        split at h
        · simp at h
        · rename_i s2 p hs
          simp only [Except.ok.injEq, Prod.mk.injEq] at h; rw [← h.1]
          have hd := send_des hs; exact ⟨hd.1, hd.2⟩
      · split at h
        · simp only [Except.ok.injEq] at h
          have := closeOrDelete_des s args true
          rw [h] at this; exact this
        · split at h
          · unfold Srv.cmdPlay at h
            match args, h with
            | [], h => exact errorOut_des h
            | a0 :: rest, h =>
              simp only at h
              (repeat' split at h)
              all_goals first
                | exact errorOut_des h
                | (simp only [Except.ok.injEq, Prod.mk.injEq] at h; rw [← h.1]; exact ⟨rfl, rfl⟩)
          · split at h
            · unfold Srv.cmdPublish at h
              match args, h with
              | [], h => exact errorOut_des h
              | [_], h => exact errorOut_des h
              | a0 :: a1 :: _, h =>
                simp only at h
                (repeat' split at h)
                all_goals first
                  | exact errorOut_des h
                  | (simp at h; done)
                  | (simp only [Except.ok.injEq, Prod.mk.injEq] at h; rw [← h.1]; exact ⟨rfl, rfl⟩)
                  | (rename_i s2 p hs
                     simp only [Except.ok.injEq, Prod.mk.injEq] at h; rw [← h.1]
                     have hd := send_des hs; exact ⟨hd.1, hd.2⟩)
            · simp only [Except.ok.injEq, Prod.mk.injEq] at h; rw [← h.1]; exact ⟨rfl, rfl⟩

theorem setMaxChunkSize_stage {c c' : Des.Core} {n : Nat} (h : Des.setMaxChunkSize c n = .ok c') : c'.stage = c.stage := by
  unfold Des.setMaxChunkSize at h
  split at h
  · simp at h
  · simp only [Except.ok.injEq] at h; rw [← h]

theorem handleMessage_des {s s' : Srv.State} {now : Nat} {p : Msg} {m : RtmpMsg} {rs : List Srv.Res}
    (h : Srv.handleMessage s now p m = .ok (s', rs)) : DesFrame s s' := by
  unfold Srv.handleMessage at h
  cases m with
  | amf0Command name tid obj args => exact handleCommand_des h
  | setChunkSize n =>
    simp only at h
    split at h
    · simp at h
    · rename_i c hc
      simp only [Except.ok.injEq, Prod.mk.injEq] at h; rw [← h.1]
      exact ⟨rfl, setMaxChunkSize_stage hc⟩
  | userControl ev a b ts =>
    simp only at h
    cases ev <;> simp only at h
    all_goals first
      | (simp only [Except.ok.injEq, Prod.mk.injEq] at h; rw [← h.1]; exact ⟨rfl, rfl⟩)
      | (split at h
         · simp at h
         · rename_i s2 pk hs
           simp only [Except.ok.injEq, Prod.mk.injEq] at h; rw [← h.1]
           have hd := send_des hs; exact ⟨hd.1, hd.2⟩)
  | amf0Data vals => simp only [Except.ok.injEq, Prod.mk.injEq] at h; rw [← h.1]; exact ⟨rfl, rfl⟩
  | audio d => simp only [Except.ok.injEq, Prod.mk.injEq] at h; rw [← h.1]; exact ⟨rfl, rfl⟩
  | video d => simp only [Except.ok.injEq, Prod.mk.injEq] at h; rw [← h.1]; exact ⟨rfl, rfl⟩
  | abort _ => simp only [Except.ok.injEq, Prod.mk.injEq] at h; rw [← h.1]; exact ⟨rfl, rfl⟩
  | ack n => simp only [Except.ok.injEq, Prod.mk.injEq] at h; rw [← h.1]; exact ⟨rfl, rfl⟩
  | setPeerBandwidth _ _ => simp only [Except.ok.injEq, Prod.mk.injEq] at h; rw [← h.1]; exact ⟨rfl, rfl⟩
  | windowAck n => simp only [Except.ok.injEq, Prod.mk.injEq] at h; rw [← h.1]; exact ⟨rfl, rfl⟩
  | unknown _ _ => simp only [Except.ok.injEq, Prod.mk.injEq] at h; rw [← h.1]; exact ⟨rfl, rfl⟩

theorem handleMessage_nh (s : Srv.State) (hp : Safe s) (now : Nat) (p : Msg) (m : RtmpMsg) :
    NH (Srv.handleMessage s now p m) := by
  intro e h
  unfold Srv.handleMessage at h
  cases m with
  | amf0Command name tid obj args => exact handleCommand_nh s hp _ _ _ _ _ _ e h
  | setChunkSize n =>
    simp only at h
    split at h
    · simp only [Except.error.injEq] at h; rw [← h]; simp
    · simp at h
  | userControl ev a b ts =>
    simp only at h
    cases ev <;> simp only at h
    all_goals first
      | (simp at h; done)
      | (split at h
         · rename_i e' he
           simp only [Except.error.injEq] at h; rw [← h]
           exact send_nh' he hp
         · simp at h)
  | amf0Data vals => simp at h
  | audio d => simp at h
  | video d => simp at h
  | abort _ => simp at h
  | ack n => simp at h
  | setPeerBandwidth _ _ => simp at h
  | windowAck n => simp at h
  | unknown _ _ => simp at h

end Rml.Safe.S
