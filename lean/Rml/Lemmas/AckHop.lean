/-
Acknowledgements and the hop lemmas: `handle_input` is "send the acknowledgement that is due, if any, then
drain"; the acknowledgement changes the sender's serializer only, and delivered to the peer it raises only
its own event.  `srv_input_hop` / `cli_input_hop` are Exchange.srv_recv / cli_recv for the real entry point.
-/
import Rml.Lemmas.Workflow
import Rml.Props.C15
namespace Rml.AckHop
open Rml Rml.Bytes Rml.Chunk Rml.Amf0 Rml.Msgs Rml.Sess Rml.SerHist Rml.Emit Rml.Link Rml.Exchange Rml.WfSteps Rml.Workflow

/-- the acknowledgement message -/
def ackMsg (n now : Nat) : Msg := { ts := epoch now, typ := 3, msid := 0, data := be32 n }

theorem fp_ack (n : Nat) (h : n < 4294967296) : fromPayload 3 (be32 n) = .ok (.ack n) := by
  have hw : C13.WF (.ack n) := by unfold C13.WF C13.U32; exact h
  exact C13.C13_roundtrip (.ack n) hw 3 _ (by simp only [toPayload])

/-- an acknowledgement changes nothing at the receiving server and raises only its event -/
theorem srv_step_ack (v : Srv.State) (now n ts msid : Nat) (h : n < 4294967296) :
    SrvSteps.stepMsg v now { ts := ts, typ := 3, msid := msid, data := be32 n } = .ok (v, [.ev (.ackReceived n)]) := by
  rw [srv_stepMsg_fp (fp_ack n h)]
  simp only [Srv.handleMessage]

theorem cli_step_ack (c : Cli.State) (now n ts msid : Nat) (h : n < 4294967296) :
    CliSteps.stepMsg c now { ts := ts, typ := 3, msid := msid, data := be32 n } = .ok (c, [.ev (.ackReceived n)]) := by
  rw [cli_stepMsg_fp (fp_ack n h)]
  simp only [Cli.handleMessage]

/-- **`handle_input` when an acknowledgement is due**: the acknowledgement is sent first (it changes the
    serializer only), then the bytes are drained; the packet is the first result -/
theorem srv_input_with_ack (s s1 : Srv.State) (now : Nat) (bytes : Bytes) (n : Nat) (p : Ser.Packet)
    (h : (ackStep s.window s.since bytes.length).2 = some n)
    (hsend : Srv.send s (.ack n) (epoch now) 0 = .ok (s1, p)) :
    Srv.handleInput s now bytes =
      SrvPart.mapOk [.out p] (SrvPart.drain { s1 with since := (ackStep s.window s.since bytes.length).1 } now bytes) := by
  unfold Srv.handleInput SrvPart.drain
  cases hk : ackStep s.window s.since bytes.length with
  | mk since ack =>
    rw [hk] at h
    simp only at h
    subst h
    simp only
    unfold Srv.send at hsend ⊢
    cases hm : sendMsg s.ser (.ack n) (epoch now) 0 false false with
    | error e => simp [hm] at hsend
    | ok r =>
      obtain ⟨ser', p'⟩ := r
      simp only [hm, Except.ok.injEq, Prod.mk.injEq] at hsend
      obtain ⟨h1, h2⟩ := hsend
      subst h1; subst h2
      simp only [hm]
      rw [SrvPart.msgLoop_acc]
      rfl

theorem cli_input_with_ack (s s1 : Cli.State) (now : Nat) (bytes : Bytes) (n : Nat) (p : Ser.Packet)
    (h : (ackStep s.window s.since bytes.length).2 = some n)
    (hsend : Cli.send s (.ack n) (epoch now) 0 = .ok (s1, p)) :
    Cli.handleInput s now bytes =
      CliPart.mapOk [.out p] (CliPart.drain { s1 with since := (ackStep s.window s.since bytes.length).1 } now bytes) := by
  unfold Cli.handleInput CliPart.drain
  cases hk : ackStep s.window s.since bytes.length with
  | mk since ack =>
    rw [hk] at h
    simp only at h
    subst h
    simp only
    unfold Cli.send at hsend ⊢
    cases hm : sendMsg s.ser (.ack n) (epoch now) 0 false false with
    | error e => simp [hm] at hsend
    | ok r =>
      obtain ⟨ser', p'⟩ := r
      simp only [hm, Except.ok.injEq, Prod.mk.injEq] at hsend
      obtain ⟨h1, h2⟩ := hsend
      subst h1; subst h2
      simp only [hm]
      rw [CliPart.msgLoop_acc]
      rfl

/-- **one hop through `handle_input`** (server receiving).  Sender's serializer and the server's
    deserializer in step; the sender emits `xs`; the bytes are delivered in one `handle_input` call.
    If no acknowledgement is due the call is the message-level fold over the messages of `xs`; if one is
    due it is sent first — it changes the server's serializer only and its packet is the first result —
    and then the same fold runs.  Either way the two are in step again. -/
theorem srv_input_hop {ser ser' : Ser.State} {v : Srv.State} {xs : List (Ser.Packet × Msg)} (now : Nat)
    (hl : Linked ser v.des) (he : Emits ser ser' xs) :
    (∀ since', ackStep v.window v.since (wire xs).length = (since', none) →
      ∀ sF rs, SrvSteps.steps { v with since := since' } now (msgs xs) = .ok (sF, rs) →
      ∃ core', Srv.handleInput v now (wire xs) = ({ sF with des := { core := core', buf := [] } }, .ok rs) ∧
        Linked ser' { core := core', buf := [] }) ∧
    (∀ since' n, ackStep v.window v.since (wire xs).length = (since', some n) →
      ∀ v1 p sF rs, Srv.send v (.ack n) (epoch now) 0 = .ok (v1, p) →
      SrvSteps.steps { v1 with since := since' } now (msgs xs) = .ok (sF, rs) →
      ∃ core', Srv.handleInput v now (wire xs) = ({ sF with des := { core := core', buf := [] } }, .ok (.out p :: rs)) ∧
        Linked ser' { core := core', buf := [] } ∧ Emits v.ser v1.ser [(p, ackMsg n now)]) := by
  constructor
  · intro since' hk sF rs hst
    have h2 : (ackStep v.window v.since (wire xs).length).2 = none := by rw [hk]
    rw [C15.C15_server_input_is_drain v now (wire xs) h2, hk]
    exact srv_recv now (v := { v with since := since' }) hl he hst
  · intro since' n hk v1 p sF rs hsend hst
    have h2 : (ackStep v.window v.since (wire xs).length).2 = some n := by rw [hk]
    obtain ⟨typ, body, hp, hem, hv1⟩ := srv_send_exact hsend trivial (epoch_lt now) (by decide)
    simp only [toPayload, Except.ok.injEq, Prod.mk.injEq] at hp
    obtain ⟨rfl, rfl⟩ := hp
    rw [srv_input_with_ack v v1 now (wire xs) n p h2 hsend, hk]
    have hl1 : Linked ser ({ v1 with since := since' } : Srv.State).des := by
      show Linked ser v1.des
      rw [hv1]; exact hl
    obtain ⟨core', hd, hl'⟩ := srv_recv now (v := { v1 with since := since' }) hl1 he hst
    refine ⟨core', ?_, hl', hem⟩
    rw [hd]; rfl

/-- the same, client receiving -/
theorem cli_input_hop {ser ser' : Ser.State} {c : Cli.State} {xs : List (Ser.Packet × Msg)} (now : Nat)
    (hl : Linked ser c.des) (he : Emits ser ser' xs) :
    (∀ since', ackStep c.window c.since (wire xs).length = (since', none) →
      ∀ sF rs, CliSteps.steps { c with since := since' } now (msgs xs) = .ok (sF, rs) →
      ∃ core', Cli.handleInput c now (wire xs) = ({ sF with des := { core := core', buf := [] } }, .ok rs) ∧
        Linked ser' { core := core', buf := [] }) ∧
    (∀ since' n, ackStep c.window c.since (wire xs).length = (since', some n) →
      ∀ c1 p sF rs, Cli.send c (.ack n) (epoch now) 0 = .ok (c1, p) →
      CliSteps.steps { c1 with since := since' } now (msgs xs) = .ok (sF, rs) →
      ∃ core', Cli.handleInput c now (wire xs) = ({ sF with des := { core := core', buf := [] } }, .ok (.out p :: rs)) ∧
        Linked ser' { core := core', buf := [] } ∧ Emits c.ser c1.ser [(p, ackMsg n now)]) := by
  constructor
  · intro since' hk sF rs hst
    have h2 : (ackStep c.window c.since (wire xs).length).2 = none := by rw [hk]
    rw [C15.C15_client_input_is_drain c now (wire xs) h2, hk]
    exact cli_recv now (c := { c with since := since' }) hl he hst
  · intro since' n hk c1 p sF rs hsend hst
    have h2 : (ackStep c.window c.since (wire xs).length).2 = some n := by rw [hk]
    obtain ⟨typ, body, hp, hem, hc1⟩ := cli_send_exact hsend trivial (epoch_lt now) (by decide)
    simp only [toPayload, Except.ok.injEq, Prod.mk.injEq] at hp
    obtain ⟨rfl, rfl⟩ := hp
    rw [cli_input_with_ack c c1 now (wire xs) n p h2 hsend, hk]
    have hl1 : Linked ser ({ c1 with since := since' } : Cli.State).des := by
      show Linked ser c1.des
      rw [hc1]; exact hl
    obtain ⟨core', hd, hl'⟩ := cli_recv now (c := { c1 with since := since' }) hl1 he hst
    refine ⟨core', ?_, hl', hem⟩
    rw [hd]; rfl

end Rml.AckHop
