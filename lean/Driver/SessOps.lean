/- Line-protocol ops of the two session models (driver only). -/
import Rml.Model.ServerSession
import Rml.Model.ClientSession
import Rml.Spec.Chunk
import Driver.AmfText
import Driver.MsgText
import Driver.ChunkOps
namespace Driver
open Rml Rml.Chunk Rml.Sess

structure SessSt where
  srv : Option Srv.State := none
  srvOut : Spec.Chunk.State := {}      -- reference reader following the server's output
  cli : Option Cli.State := none
  cliOut : Spec.Chunk.State := {}

/-- decode one outbound packet with the specification reader: (new reader state, header bytes, messages) -/
partial def decodePacket (st : Spec.Chunk.State) (bs : Bytes) : Option (Spec.Chunk.State × Bytes × List Msg) :=
  let rec go (st : Spec.Chunk.State) (bs : Bytes) (hdrs : Bytes) (ms : List Msg) : Option (Spec.Chunk.State × Bytes × List Msg) :=
    if bs.isEmpty then some (st, hdrs, ms) else
    match Spec.Chunk.chunk st bs with
    | none => none
    | some (st', m, rest) =>
      -- payload bytes of this chunk: what the in-flight buffer grew by (or the whole message if it completed)
      let consumed := bs.length - rest.length
      let before := ((st.streams.find? (fun (k, _) => (Spec.Chunk.basic bs).map (·.2.1) == some k)).map (·.2.buf.length)).getD 0
      let payloadLen := match m with
        | some mm => mm.data.length - before
        | none => (((st'.streams.find? (fun (k, _) => (Spec.Chunk.basic bs).map (·.2.1) == some k)).map (·.2.buf.length)).getD 0) - before
      let hdr := bs.take (consumed - payloadLen)
      go st' rest (hdrs ++ hdr) (match m with | some mm => ms ++ [mm] | none => ms)
  go st bs [] []

def showBody (m : Msg) : String :=
  if m.typ == 18 || m.typ == 20 then
    match Amf0.decode m.data with
    | .ok vs => "amf(" ++ showVals vs ++ ")"
    | .error _ => showBytes m.data
  else showBytes m.data

def showOut (st : Spec.Chunk.State) (p : Ser.Packet) : Spec.Chunk.State × String :=
  let d := if p.drop then "1" else "0"
  match decodePacket st p.bytes with
  | none =>
    -- the bytes may contain an AMF0 map in arbitrary order: print an order-insensitive digest
    let sorted := (p.bytes.toArray.qsort (· < ·)).toList
    (st, s!"out:{d}:{p.bytes.length}:UNDECODABLE:{hex64 (fnv64 sorted)}")
  | some (st', hdrs, ms) =>
    (st', s!"out:{d}:{p.bytes.length}:{showBytes hdrs}:" ++ "+".intercalate (ms.map fun m => s!"{m.typ}.{m.msid}.{m.ts}.{showBody m}"))

def showOptB (o : Option Bool) : String := match o with | none => "_" | some true => "t" | some false => "f"
def showOptBytes (o : Option Bytes) : String := match o with | none => "_" | some b => showBytes b

def showMeta (m : Metadata) : String :=
  s!"{showOptNat m.videoWidth},{showOptNat m.videoHeight},{showOptNat m.videoCodecId},{showOptNat m.videoFrameRate},{showOptNat m.videoBitrateKbps},{showOptNat m.audioCodecId},{showOptNat m.audioBitrateKbps},{showOptNat m.audioSampleRate},{showOptNat m.audioChannels},{showOptB m.audioIsStereo},{showOptBytes m.encoder}"

def parseMeta (s : String) : Option Metadata :=
  match s.splitOn "," with
  | [a, b, c, d, e, f, g, h, i, j, k] => do
    let a ← parseOptNat a; let b ← parseOptNat b; let c ← parseOptNat c; let d ← parseOptNat d; let e ← parseOptNat e
    let f ← parseOptNat f; let g ← parseOptNat g; let h ← parseOptNat h; let i ← parseOptNat i
    let j ← (if j == "_" then some none else if j == "t" then some (some true) else if j == "f" then some (some false) else none)
    let k ← (if k == "_" then some none else (parseBytes k).map some)
    pure { videoWidth := a, videoHeight := b, videoCodecId := c, videoFrameRate := d, videoBitrateKbps := e,
           audioCodecId := f, audioBitrateKbps := g, audioSampleRate := h, audioChannels := i, audioIsStereo := j, encoder := k }
  | _ => none

def showSessErr : Sess.Err → String
  | .chunkDes e => "err:chunkdes:" ++ (showDesErr e).drop 4
  | .chunkSer .messageTooLong => "err:chunkser:toolong"
  | .chunkSer .invalidMaxChunkSize => "err:chunkser:cs"
  | .msgSer e => "err:msgser:" ++ (showSerErr e).drop 4
  | .msgDes e => "err:msgdes:" ++ (showDeErr e).drop 4
  | .invalidRequestId => "err:requestid"
  | .noAppName => "err:noapp"
  | .inactiveStream => "err:inactive"
  | .cantConnect => "err:cantconnect"
  | .invalidState => "err:state"
  | .noActiveStream => "err:noactive"
  | .createStreamFailed => "err:createfailed"
  | .createStreamNoNumber => "err:createnonumber"
  | .invalidOnStatus => "err:onstatus"
  | .hang => "err:MODEL-HANG"

def showMode : Srv.PublishMode → String
  | .live => "live" | .record => "record" | .append => "append"

def showSrvEvent : Srv.Event → String
  | .connectionRequested id app => s!"ev:connreq:{id}:{showBytes app}"
  | .publishRequested id app key mode => s!"ev:pubreq:{id}:{showBytes app}:{showBytes key}:{showMode mode}"
  | .publishFinished app key => s!"ev:pubfin:{showBytes app}:{showBytes key}"
  | .metadataChanged app key m => s!"ev:meta:{showBytes app}:{showBytes key}:{showMeta m}"
  | .audio app key d ts => s!"ev:audio:{showBytes app}:{showBytes key}:{ts}:{showBytes d}"
  | .video app key d ts => s!"ev:video:{showBytes app}:{showBytes key}:{ts}:{showBytes d}"
  | .unhandleableCommand n tid obj args => s!"ev:unhcmd:{showBytes n}:{hexN tid 16}:{showVal obj}:{showVals args}"
  | .playRequested id app key start dur reset sid =>
    let st := match start with | .liveOrRecorded => "lor" | .liveOnly => "live" | .startTime x => s!"at{x}"
    s!"ev:playreq:{id}:{showBytes app}:{showBytes key}:{st}:{showOptNat dur}:{if reset then 1 else 0}:{sid}"
  | .playFinished app key => s!"ev:playfin:{showBytes app}:{showBytes key}"
  | .ackReceived n => s!"ev:ack:{n}"
  | .pingResponse ts => s!"ev:pong:{ts}"

def showSrvResults (st : Spec.Chunk.State) (rs : List Srv.Res) : Spec.Chunk.State × String :=
  let (st', toks) := rs.foldl (fun (acc : Spec.Chunk.State × List String) r =>
    match r with
    | .out p => let (s', t) := showOut acc.1 p; (s', acc.2 ++ [t])
    | .ev e => (acc.1, acc.2 ++ [showSrvEvent e])
    | .unhandled m => (acc.1, acc.2 ++ [s!"unh:{showMsg m}"])) (st, [])
  (st', if toks.isEmpty then "ok" else "ok " ++ " ".intercalate toks)

def showCliEvent : Cli.Event → String
  | .connectionAccepted => "ev:connok"
  | .connectionRejected d => s!"ev:connrej:{showBytes d}"
  | .playbackAccepted => "ev:playok"
  | .publishAccepted => "ev:pubok"
  | .metadata m => s!"ev:meta:{showMeta m}"
  | .video ts d => s!"ev:video:{ts}:{showBytes d}"
  | .audio ts d => s!"ev:audio:{ts}:{showBytes d}"
  | .unhandleableCommand n tid obj args => s!"ev:unhcmd:{showBytes n}:{hexN tid 16}:{showVal obj}:{showVals args}"
  | .unknownTransactionResult tid obj args => s!"ev:unktxn:{hexN tid 16}:{showVal obj}:{showVals args}"
  | .unhandleableOnStatus c => s!"ev:unhstatus:{showBytes c}"
  | .ackReceived n => s!"ev:ack:{n}"
  | .pingResponse ts => s!"ev:pong:{ts}"

def showCliResults (st : Spec.Chunk.State) (rs : List Cli.Res) : Spec.Chunk.State × String :=
  let (st', toks) := rs.foldl (fun (acc : Spec.Chunk.State × List String) r =>
    match r with
    | .out p => let (s', t) := showOut acc.1 p; (s', acc.2 ++ [t])
    | .ev e => (acc.1, acc.2 ++ [showCliEvent e])
    | .unhandled m => (acc.1, acc.2 ++ [s!"unh:{showMsg m}"])) (st, [])
  (st', if toks.isEmpty then "ok" else "ok " ++ " ".intercalate toks)

def b01 (s : String) : Bool := s == "1"

/-- feed an input in calls of the given sizes; output = results of the calls separated by " | " -/
def srvFeed (ss : SessSt) (s : Srv.State) (now : Nat) (calls : List Bytes) : SessSt × String :=
  let (ss', _, outs, _) := calls.foldl (fun (acc : SessSt × Srv.State × List String × Bool) call =>
    let (ss, s, outs, dead) := acc
    if dead then acc else
    let (s', r) := Srv.handleInput s now call
    match r with
    | .error e => ({ ss with srv := some s' }, s', outs ++ [showSessErr e], true)
    | .ok rs => let (o, t) := showSrvResults ss.srvOut rs; ({ ss with srv := some s', srvOut := o }, s', outs ++ [t], false)) (ss, s, [], false)
  (ss', " | ".intercalate outs)

def cliFeed (ss : SessSt) (s : Cli.State) (now : Nat) (calls : List Bytes) : SessSt × String :=
  let (ss', _, outs, _) := calls.foldl (fun (acc : SessSt × Cli.State × List String × Bool) call =>
    let (ss, s, outs, dead) := acc
    if dead then acc else
    let (s', r) := Cli.handleInput s now call
    match r with
    | .error e => ({ ss with cli := some s' }, s', outs ++ [showSessErr e], true)
    | .ok rs => let (o, t) := showCliResults ss.cliOut rs; ({ ss with cli := some s', cliOut := o }, s', outs ++ [t], false)) (ss, s, [], false)
  (ss', " | ".intercalate outs)

def sessOp (ss : SessSt) (toks : List String) : Option (SessSt × String) :=
  match toks with
  | ["srv.new", now, cs, win, bw, bwdone, fms] => do
    let now ← now.toNat?; let cs ← cs.toNat?; let win ← win.toNat?; let bw ← bw.toNat?; let fms ← parseBytes fms
    match Srv.new { fmsVersion := fms, chunkSize := cs, peerBandwidth := bw, windowAckSize := win, sendOnBwDone := b01 bwdone } now with
    | .error e => pure ({ ss with srv := none }, showSessErr e)
    | .ok (s, rs) => let (o, t) := showSrvResults {} rs; pure ({ ss with srv := some s, srvOut := o }, t)
  | ["srv.in", now, sizes, data] => do
    let now ← now.toNat?; let sizes ← parseSizes sizes; let data ← parseBytes data; let s ← ss.srv
    pure (srvFeed ss s now (splitCalls sizes data))
  | ["srv.accept", now, id] => do
    let now ← now.toNat?; let id ← id.toNat?; let s ← ss.srv
    let (s', r) := Srv.acceptRequest s now id
    match r with
    | .error e => pure ({ ss with srv := some s' }, showSessErr e)
    | .ok rs => let (o, t) := showSrvResults ss.srvOut rs; pure ({ ss with srv := some s', srvOut := o }, t)
  | ["srv.reject", now, id, code, desc] => do
    let now ← now.toNat?; let id ← id.toNat?; let code ← parseBytes code; let desc ← parseBytes desc; let s ← ss.srv
    let (s', r) := Srv.rejectRequest s now id code desc
    match r with
    | .error e => pure ({ ss with srv := some s' }, showSessErr e)
    | .ok rs => let (o, t) := showSrvResults ss.srvOut rs; pure ({ ss with srv := some s', srvOut := o }, t)
  | ["srv.media", kind, sid, ts, drop, data] => do
    let sid ← sid.toNat?; let ts ← ts.toNat?; let data ← parseBytes data; let s ← ss.srv
    let (s', r) := Srv.sendMedia s (kind == "v") sid data ts (b01 drop)
    match r with
    | .error e => pure ({ ss with srv := some s' }, showSessErr e)
    | .ok p => let (o, t) := showOut ss.srvOut p; pure ({ ss with srv := some s', srvOut := o }, "ok " ++ t)
  | ["srv.meta", now, sid, md] => do
    let now ← now.toNat?; let sid ← sid.toNat?; let md ← parseMeta md; let s ← ss.srv
    let (s', r) := Srv.sendMetadata s now sid md
    match r with
    | .error e => pure ({ ss with srv := some s' }, showSessErr e)
    | .ok p => let (o, t) := showOut ss.srvOut p; pure ({ ss with srv := some s', srvOut := o }, "ok " ++ t)
  | ["srv.ping", now] => do
    let now ← now.toNat?; let s ← ss.srv
    let (s', r) := Srv.sendPing s now
    match r with
    | .error e => pure ({ ss with srv := some s' }, showSessErr e)
    | .ok (p, ts) => let (o, t) := showOut ss.srvOut p; pure ({ ss with srv := some s', srvOut := o }, s!"ok {t} ts={ts}")
  | ["srv.finish", now, sid] => do
    let now ← now.toNat?; let sid ← sid.toNat?; let s ← ss.srv
    let (s', r) := Srv.finishPlaying s now sid
    match r with
    | .error e => pure ({ ss with srv := some s' }, showSessErr e)
    | .ok p => let (o, t) := showOut ss.srvOut p; pure ({ ss with srv := some s', srvOut := o }, "ok " ++ t)
  -- ------------------------------------------------------------------------------------- client
  | ["cli.new", cs, win, buflen, flash, tcurl] => do
    let cs ← cs.toNat?; let win ← win.toNat?; let bl ← buflen.toNat?; let flash ← parseBytes flash
    let tc ← (if tcurl == "_" then some none else (parseBytes tcurl).map some)
    pure ({ ss with cli := some { cfg := { flashVersion := flash, bufferLengthMs := bl, windowAckSize := win, chunkSize := cs, tcUrl := tc } }, cliOut := {} }, "ok")
  | ["cli.in", now, sizes, data] => do
    let now ← now.toNat?; let sizes ← parseSizes sizes; let data ← parseBytes data; let s ← ss.cli
    pure (cliFeed ss s now (splitCalls sizes data))
  | ["cli.connect", now, app] => do
    let now ← now.toNat?; let app ← parseBytes app; let s ← ss.cli
    let (s', r) := Cli.requestConnection s now app
    match r with
    | .error e => pure ({ ss with cli := some s' }, showSessErr e)
    | .ok x => let (o, t) := showCliResults ss.cliOut [x]; pure ({ ss with cli := some s', cliOut := o }, t)
  | ["cli.play", now, key] => do
    let now ← now.toNat?; let key ← parseBytes key; let s ← ss.cli
    let (s', r) := Cli.requestStream s now (.play key)
    match r with
    | .error e => pure ({ ss with cli := some s' }, showSessErr e)
    | .ok x => let (o, t) := showCliResults ss.cliOut [x]; pure ({ ss with cli := some s', cliOut := o }, t)
  | ["cli.publish", now, key, ty] => do
    let now ← now.toNat?; let key ← parseBytes key; let s ← ss.cli
    let t ← (if ty == "live" then some Cli.PublishType.live else if ty == "record" then some .record else if ty == "append" then some .append else none)
    let (s', r) := Cli.requestStream s now (.publish key t)
    match r with
    | .error e => pure ({ ss with cli := some s' }, showSessErr e)
    | .ok x => let (o, t) := showCliResults ss.cliOut [x]; pure ({ ss with cli := some s', cliOut := o }, t)
  | ["cli.stop", now, what] => do
    let now ← now.toNat?; let s ← ss.cli
    let (s', r) := Cli.stop s now (what == "play")
    match r with
    | .error e => pure ({ ss with cli := some s' }, showSessErr e)
    | .ok rs => let (o, t) := showCliResults ss.cliOut rs; pure ({ ss with cli := some s', cliOut := o }, t)
  | ["cli.ping", now] => do
    let now ← now.toNat?; let s ← ss.cli
    let (s', r) := Cli.sendPing s now
    match r with
    | .error e => pure ({ ss with cli := some s' }, showSessErr e)
    | .ok (p, ts) => let (o, t) := showOut ss.cliOut p; pure ({ ss with cli := some s', cliOut := o }, s!"ok {t} ts={ts}")
  | ["cli.meta", now, md] => do
    let now ← now.toNat?; let md ← parseMeta md; let s ← ss.cli
    let (s', r) := Cli.publishMetadata s now md
    match r with
    | .error e => pure ({ ss with cli := some s' }, showSessErr e)
    | .ok x => let (o, t) := showCliResults ss.cliOut [x]; pure ({ ss with cli := some s', cliOut := o }, t)
  | ["cli.media", kind, ts, drop, data] => do
    let ts ← ts.toNat?; let data ← parseBytes data; let s ← ss.cli
    let (s', r) := Cli.publishMedia s (kind == "v") data ts (b01 drop)
    match r with
    | .error e => pure ({ ss with cli := some s' }, showSessErr e)
    | .ok x => let (o, t) := showCliResults ss.cliOut [x]; pure ({ ss with cli := some s', cliOut := o }, t)
  -- -------------------------------------------------------------------------------- float casts
  | ["f64", h] => do
    let b ← parseHexChars h.toList
    let v := Bytes.beVal b 0
    pure (ss, s!"{F64.toU32 v} {hexN (F64.toF32 v) 8} {if F64.geZero v then 1 else 0}")
  | ["f32", h] => do
    let b ← parseHexChars h.toList
    pure (ss, hexN (F64.ofF32 (Bytes.beVal b 0)) 16)
  | ["u32f", n] => do
    let n ← n.toNat?
    pure (ss, hexN (F64.ofU32 n) 16)
  | _ => none

end Driver
