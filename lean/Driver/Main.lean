import Rml.Model.Time
import Driver.Util
import Driver.AmfText
import Driver.ChunkOps
import Driver.MsgText
import Driver.HsOps
import Driver.SessOps
open Rml

namespace Driver

def showOrd : Ordering → String
  | .lt => "lt" | .eq => "eq" | .gt => "gt"

def showB (b : Bool) : String := if b then "1" else "0"

structure St where
  chunk : ChunkSt := {}
  hs : HsSt := {}
  sess : SessSt := {}
  dead : Bool := false

def timeOp (a b : Nat) : String :=
  s!"{Time.add a b} {Time.sub a b} {showOrd (Time.tsCompare a b)} {showB (Time.tsGt a b)} {showB (Time.tsLt a b)} {showB (Time.tsGe a b)} {showB (Time.tsLe a b)} {showB (Time.tsEq a b)}"

def step (st : St) (line : String) : St × String :=
  match line.trimAscii.toString.splitOn " " with
  | ["case", _] => ({}, "case")
  | ["time", a, b] =>
    match a.toNat?, b.toNat? with
    | some a, some b => if a < Time.M ∧ b < Time.M then (st, timeOp a b) else (st, "bad-op")
    | _, _ => (st, "bad-op")
  | ["amf.dec", h] => (st, amfDec h)
  | ["utf8", h] =>
    match parseBytes h with
    | some b => (st, showB (Rml.Utf8.valid b))
    | none => (st, "bad-op")
  | ["?amf.enc", v, "=>", r] =>
    match parseVals v with
    | some vs => (st, checkEnc vs r)
    | none => (st, "bad-op")
  | ["?amf.enc", v, "=>", r, h] =>
    match parseVals v with
    | some vs => (st, checkEnc vs (r ++ " " ++ h))
    | none => (st, "bad-op")
  | "note" :: _ => (st, "note")
  | tok :: rest =>
    if tok.startsWith "!" then (st, "!") else
    match chunkOp st.chunk (tok :: rest) with
    | some (c, out) => ({ st with chunk := c }, out)
    | none =>
      match msgOp (tok :: rest) with
      | some out => (st, out)
      | none =>
        match hsOp st.hs (tok :: rest) with
        | some (h, out) => ({ st with hs := h }, out)
        | none =>
          match sessOp st.sess (tok :: rest) with
          | some (x, out) => ({ st with sess := x }, out)
          | none => (st, "bad-op")
  | _ => (st, "bad-op")

partial def loop (h : IO.FS.Stream) (out : IO.FS.Stream) (st : St) : IO Unit := do
  let line ← h.getLine
  if line.isEmpty then return ()
  let isCase := line.startsWith "case "
  let (st', o) := if st.dead && !isCase then (st, "dead") else step st line
  out.putStrLn o
  loop h out (if o.startsWith "panic" then { st' with dead := true } else st')

end Driver

def main : IO Unit := do
  let stdin ← IO.getStdin
  let stdout ← IO.getStdout
  Driver.loop stdin stdout {}
