/- Text syntax of AMF0 values in the line protocol (driver only; nothing is proved about it). -/
import Rml.Model.Amf0
import Driver.Util
namespace Driver
open Rml Rml.Amf0

def bytesLt : Bytes → Bytes → Bool
  | [], [] => false
  | [], _ :: _ => true
  | _ :: _, [] => false
  | a :: as, b :: bs => if a < b then true else if b < a then false else bytesLt as bs

def insertSorted (p : Bytes × Val) : List (Bytes × Val) → List (Bytes × Val)
  | [] => [p]
  | q :: rest => if bytesLt p.1 q.1 then p :: q :: rest else q :: insertSorted p rest

def sortProps (ps : List (Bytes × Val)) : List (Bytes × Val) := ps.foldl (fun acc p => insertSorted p acc) []

def hexN (n : Nat) (digits : Nat) : String :=
  String.ofList ((List.range digits).map fun i => hexDigit ((n >>> (4 * (digits - 1 - i))) % 16))

partial def showVal : Val → String
  | .number n => "n" ++ hexN n 16
  | .boolean b => if b then "t" else "f"
  | .str s => "s" ++ showBytes s
  | .object ps => "o{" ++ ",".intercalate ((sortProps ps).map fun (k, v) => showBytes k ++ "=" ++ showVal v) ++ "}"
  | .array vs => "a[" ++ ",".intercalate (vs.map showVal) ++ "]"
  | .null => "z"
  | .undefined => "u"

def showVals (vs : List Val) : String := if vs.isEmpty then "~" else ";".intercalate (vs.map showVal)

def isBytesChar (c : Char) : Bool := c.isAlphanum || c == '.' || c == '*' || c == '-'

def spanBytes (cs : List Char) : List Char × List Char := cs.span isBytesChar

mutual
partial def parseVal : List Char → Option (Val × List Char)
  | 'n' :: cs =>
    let (h, r) := cs.span Char.isAlphanum
    if h.length != 16 then none else
    match parseHexChars h with
    | some b => some (.number (Bytes.beVal b 0), r)
    | none => none
  | 't' :: cs => some (.boolean true, cs)
  | 'f' :: cs => some (.boolean false, cs)
  | 'z' :: cs => some (.null, cs)
  | 'u' :: cs => some (.undefined, cs)
  | 's' :: cs =>
    let (h, r) := spanBytes cs
    match parseBytes (String.ofList h) with
    | some b => some (.str b, r)
    | none => none
  | 'o' :: '{' :: cs => parseProps cs []
  | 'a' :: '[' :: cs => parseElems cs []
  | _ => none
partial def parseProps : List Char → List (Bytes × Val) → Option (Val × List Char)
  | '}' :: cs, acc => some (.object acc, cs)
  | ',' :: cs, acc => parseProps cs acc
  | cs, acc =>
    let (h, r) := spanBytes cs
    match parseBytes (String.ofList h), r with
    | some k, '=' :: r' =>
      match parseVal r' with
      | some (v, r'') => parseProps r'' (acc ++ [(k, v)])
      | none => none
    | _, _ => none
partial def parseElems : List Char → List Val → Option (Val × List Char)
  | ']' :: cs, acc => some (.array acc, cs)
  | ',' :: cs, acc => parseElems cs acc
  | cs, acc =>
    match parseVal cs with
    | some (v, r) => parseElems r (acc ++ [v])
    | none => none
end

partial def parseValsAux : List Char → List Val → Option (List Val)
  | [], acc => some acc
  | ';' :: cs, acc => parseValsAux cs acc
  | cs, acc =>
    match parseVal cs with
    | some (v, r) => parseValsAux r (acc ++ [v])
    | none => none

def parseVals (s : String) : Option (List Val) :=
  if s == "~" then some [] else parseValsAux s.toList []

def showDecErr : DecErr → String
  | .unknownMarker m => s!"err:marker:{m.toNat}"
  | .emptyName => "err:emptyname"
  | .eof => "err:eof"
  | .io => "err:io"
  | .utf8 => "err:utf8"
  | .tooDeep => "err:deep"
  | .fuel => "err:MODEL-FUEL"

def showEncErr : EncErr → String
  | .tooLong => "err:toolong"
  | .emptyName => "err:emptyname"
  | .tooDeep => "err:deep"

/-- every error some enumeration order could report first (over-approximation: every error present) -/
partial def allEncErrs (d : Nat) : Val → List EncErr
  | .str s => if s.length > 65535 then [.tooLong] else []
  | .object ps =>
    if d ≥ maxDepth then [.tooDeep] else
    ps.flatMap fun (k, v) =>
      (if k.length > 65535 then [EncErr.tooLong] else if k.length = 0 then [.emptyName] else []) ++ allEncErrs (d + 1) v
  | .array vs => if d ≥ maxDepth then [.tooDeep] else vs.flatMap (allEncErrs (d + 1))
  | _ => []

/-- equality of values with objects compared as maps (keys are distinct on both sides) -/
partial def valEqMap : Val → Val → Bool
  | .number a, .number b => a == b
  | .boolean a, .boolean b => a == b
  | .str a, .str b => a == b
  | .null, .null => true
  | .undefined, .undefined => true
  | .array a, .array b => a.length == b.length && (a.zip b).all fun (x, y) => valEqMap x y
  | .object a, .object b =>
    let sa := sortProps a; let sb := sortProps b
    sa.length == sb.length && (sa.zip sb).all fun (p, q) => p.1 == q.1 && valEqMap p.2 q.2
  | _, _ => false

/-- `?amf.enc VALS => IMPL`: the implementation's bytes must be the model encoding of the values
    under *some* enumeration order of each map: decode them with the model (wire order), compare as
    maps, re-encode in wire order, compare bytes exactly. -/
def checkEnc (vs : List Val) (impl : String) : String :=
  let errs := vs.flatMap (allEncErrs 0)
  match impl.splitOn " " with
  | ["ok", h] =>
    if !errs.isEmpty then "bad: model refuses this value, implementation encoded it" else
    match parseBytes h with
    | none => "bad: unparsable impl bytes"
    | some bs =>
      match decode bs with
      | .error e => "bad: impl bytes do not decode in the model: " ++ showDecErr e
      | .ok vs' =>
        if !(vs.length == vs'.length && (vs.zip vs').all fun (x, y) => valEqMap x y) then "bad: decoded value differs"
        else match encode vs' with
          | .ok bs' => if bs' == bs then "ok" else "bad: model encoding in wire order differs from impl bytes"
          | .error e => "bad: model refuses wire-order value " ++ showEncErr e
  | [e] =>
    if errs.any (fun x => showEncErr x == e) then "ok"
    else if errs.isEmpty then "bad: model encodes, implementation refused with " ++ e
    else "bad: error kind " ++ e ++ " not among model's " ++ toString (errs.map showEncErr)
  | _ => "bad: unparsable impl output"

def amfDec (h : String) : String :=
  match parseBytes h with
  | none => "bad-op"
  | some bs =>
    match decode bs with
    | .ok vs => "ok " ++ showVals vs
    | .error e => showDecErr e

end Driver
