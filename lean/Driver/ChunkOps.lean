/- Line-protocol ops of the chunk layer (driver only). -/
import Rml.Model.Serializer
import Rml.Model.Deserializer
import Rml.Spec.Chunk
import Driver.Util
namespace Driver
open Rml Rml.Chunk

structure ChunkSt where
  ser : Ser.State := {}
  packets : List Ser.Packet := []
  des : Des.State := {}
  desDead : Bool := false
  decoded : List Msg := []

def showMsg (m : Msg) : String := s!"{m.typ}:{m.msid}:{m.ts}:{showBytes m.data}"

def showDesErr : Des.Err → String
  | .noPrevious c => s!"err:noprev:{c}"
  | .invalidLength => "err:len"
  | .invalidMaxChunkSize => "err:cs"
  | .fuel => "err:MODEL-FUEL"

def showSerOutcome (o : Ser.Outcome (Ser.State × Ser.Packet)) : String :=
  match o with
  | .ok (_, p) => s!"ok {if p.drop then 1 else 0} {showBytes p.bytes}"
  | .err .messageTooLong => "err:toolong"
  | .err .invalidMaxChunkSize => "err:cs"
  | .hang => "hang"

def parseSizes (s : String) : Option (List Nat) :=
  if s == "all" then some [] else (s.splitOn ",").mapM (·.toNat?)

/-- split `bs` into calls of the given sizes (cycled); `[]` = one call -/
partial def splitCalls (sizes : List Nat) (bs : Bytes) : List Bytes :=
  if sizes.isEmpty || sizes.all (· == 0) then [bs] else
  let rec go (cur : List Nat) (bs : Bytes) (acc : List Bytes) : List Bytes :=
    if bs.isEmpty then acc.reverse else
    match cur with
    | [] => go sizes bs acc
    | n :: r => go r (bs.drop n) (bs.take n :: acc)
  go sizes bs []

/-- feed calls until an error; returns new state, messages, error -/
def feedCalls (s : ChunkSt) (calls : List Bytes) : ChunkSt × List Msg × Option Des.Err :=
  calls.foldl (fun (acc : ChunkSt × List Msg × Option Des.Err) call =>
    let (st, ms, e) := acc
    if st.desDead then acc else
    let r := Des.feed st.des call
    let st' := { st with des := { core := r.core, buf := r.buf }, desDead := r.err.isSome, decoded := st.decoded ++ r.msgs }
    (st', ms ++ r.msgs, if e.isSome then e else r.err)) (s, [], none)

def showFeed (ms : List Msg) (e : Option Des.Err) : String :=
  let base := s!"n={ms.length}" ++ String.join (ms.map fun m => " " ++ showMsg m)
  match e with
  | none => base
  | some e => base ++ " " ++ showDesErr e

/-- kept packets by mask over ALL packets (`1` keep, `0` drop; missing positions = keep) -/
def keptBytes (ps : List Ser.Packet) (mask : String) : Bytes :=
  let ms := mask.toList
  ((ps.zipIdx).map fun (p, i) => if ms.getD i '1' == '0' then [] else p.bytes).flatten

def chunkOp (s : ChunkSt) (toks : List String) : Option (ChunkSt × String) :=
  match toks with
  | ["ser.new"] => some ({ s with ser := {}, packets := [] }, "ok")
  | ["ser.msg", typ, msid, ts, force, drop, data] =>
    match typ.toNat?, msid.toNat?, ts.toNat?, parseBytes data with
    | some typ, some msid, some ts, some data =>
      let o := Ser.serialize s.ser { ts := ts, typ := typ, msid := msid, data := data } (force == "1") (drop == "1")
      let s' := match o with
        | .ok (ser', p) => { s with ser := ser', packets := s.packets ++ [p] }
        | _ => s
      some (s', showSerOutcome o)
    | _, _, _, _ => none
  | ["ser.setcs", n, ts] =>
    match n.toNat?, ts.toNat? with
    | some n, some ts =>
      let o := Ser.setMaxChunkSize s.ser n ts
      let s' := match o with
        | .ok (ser', p) => { s with ser := ser', packets := s.packets ++ [p] }
        | _ => s
      some (s', showSerOutcome o)
    | _, _ => none
  | ["des.new"] => some ({ s with des := {}, desDead := false, decoded := [] }, "ok")
  | ["des.setcs", n] =>
    match n.toNat? with
    | some n =>
      match Des.setMaxChunkSize s.des.core n with
      | .ok c => some ({ s with des := { s.des with core := c } }, "ok")
      | .error e => some (s, showDesErr e)
    | none => none
  | ["des.feed", sizes, data] =>
    match parseSizes sizes, parseBytes data with
    | some sizes, some data =>
      if s.desDead then some (s, "dead") else
      let (s', ms, e) := feedCalls s (splitCalls sizes data)
      some (s', showFeed ms e)
    | _, _ => none
  | ["des.feedpk", mask, sizes] =>
    match parseSizes sizes with
    | some sizes =>
      if s.desDead then some (s, "dead") else
      let (s', ms, e) := feedCalls s (splitCalls sizes (keptBytes s.packets mask))
      some (s', showFeed ms e)
    | none => none
  | ["spec.feed", data] =>
    match parseBytes data with
    | some data =>
      match Spec.Chunk.decode data with
      | some ms => some (s, s!"n={ms.length}" ++ String.join (ms.map fun m => " " ++ showMsg m))
      | none => some (s, "reject")
    | none => none
  | ["spec.seq", data] =>
    -- is the byte string in the class Thm B (Rml.DesSpec.feed_decodeSeq) speaks about?
    match parseBytes data with
    | some data =>
      match Spec.Chunk.decodeSeq data with
      | some ms => some (s, s!"seq n={ms.length}")
      | none => some (s, "noseq")
    | none => none
  | _ => none

end Driver
