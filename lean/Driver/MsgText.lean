/- Text syntax of RTMP messages in the line protocol + the msg.* ops (driver only). -/
import Rml.Model.Messages
import Driver.AmfText
namespace Driver
open Rml Rml.Msgs Rml.Amf0

def showOptNat : Option Nat → String
  | none => "_"
  | some n => toString n

def showRtmpMsg : RtmpMsg → String
  | .unknown t d => s!"unknown/{t}/{showBytes d}"
  | .abort n => s!"abort/{n}"
  | .ack n => s!"ack/{n}"
  | .amf0Command name tid obj args => s!"cmd/{showBytes name}/{hexN tid 16}/{showVal obj}/{showVals args}"
  | .amf0Data vals => s!"data/{showVals vals}"
  | .audio d => s!"audio/{showBytes d}"
  | .video d => s!"video/{showBytes d}"
  | .setChunkSize n => s!"scs/{n}"
  | .setPeerBandwidth n l => s!"spb/{n}/{limCode l}"
  | .userControl ev s l t => s!"uc/{ucCode ev}/{showOptNat s}/{showOptNat l}/{showOptNat t}"
  | .windowAck n => s!"wack/{n}"

def parseOptNat (s : String) : Option (Option Nat) :=
  if s == "_" then some none else s.toNat?.map some

def parseRtmpMsg (s : String) : Option RtmpMsg :=
  match s.splitOn "/" with
  | ["unknown", t, d] => do let t ← t.toNat?; let d ← parseBytes d; pure (.unknown t d)
  | ["abort", n] => n.toNat?.map .abort
  | ["ack", n] => n.toNat?.map .ack
  | ["cmd", name, tid, obj, args] => do
    let name ← parseBytes name
    let tb ← parseHexChars tid.toList
    let (o, rest) ← parseVal obj.toList
    if !rest.isEmpty then none else
    let args ← parseVals args
    pure (.amf0Command name (Bytes.beVal tb 0) o args)
  | ["data", vals] => (parseVals vals).map .amf0Data
  | ["audio", d] => (parseBytes d).map .audio
  | ["video", d] => (parseBytes d).map .video
  | ["scs", n] => n.toNat?.map .setChunkSize
  | ["spb", n, l] => do
    let n ← n.toNat?
    let l ← (if l == "0" then some Limit.hard else if l == "1" then some .soft else if l == "2" then some .dynamic else none)
    pure (.setPeerBandwidth n l)
  | ["uc", c, s, l, t] => do
    let c ← c.toNat?
    let ev ← ucOfCode c
    let s ← parseOptNat s; let l ← parseOptNat l; let t ← parseOptNat t
    pure (.userControl ev s l t)
  | ["wack", n] => n.toNat?.map .windowAck
  | _ => none

def showSerErr : SerErr → String
  | .invalidChunkSize => "err:chunksize"
  | .amf e => "err:amf:" ++ (showEncErr e).drop 4
  | .panic => "panic"

def showDeErr : DeErr → String
  | .invalidFormat => "err:format"
  | .amf e => "err:amf:" ++ (showDecErr e).drop 4
  | .io => "err:io"

def msgOp (toks : List String) : Option String :=
  match toks with
  | ["msg.to", m] =>
    match parseRtmpMsg m with
    | none => none
    | some m =>
      match toPayload m with
      | .ok (t, b) => some s!"ok {t} {showBytes b}"
      | .error e => some (showSerErr e)
  | ["msg.from", t, d] =>
    match t.toNat?, parseBytes d with
    | some t, some d =>
      match fromPayload t d with
      | .ok m => some ("ok " ++ showRtmpMsg m)
      | .error e => some (showDeErr e)
    | _, _ => none
  | _ => none

end Driver
