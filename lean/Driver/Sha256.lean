/- SHA-256 and HMAC-SHA256 for the executable driver (FIPS 180-4 / RFC 2104).  Self-tested against
   the standard vectors by the `sha.selftest` op; no theorem depends on this file. -/
import Rml.Model.Bytes
namespace Driver.Sha
open Rml

def K : Array UInt32 := #[
  0x428a2f98, 0x71374491, 0xb5c0fbcf, 0xe9b5dba5, 0x3956c25b, 0x59f111f1, 0x923f82a4, 0xab1c5ed5,
  0xd807aa98, 0x12835b01, 0x243185be, 0x550c7dc3, 0x72be5d74, 0x80deb1fe, 0x9bdc06a7, 0xc19bf174,
  0xe49b69c1, 0xefbe4786, 0x0fc19dc6, 0x240ca1cc, 0x2de92c6f, 0x4a7484aa, 0x5cb0a9dc, 0x76f988da,
  0x983e5152, 0xa831c66d, 0xb00327c8, 0xbf597fc7, 0xc6e00bf3, 0xd5a79147, 0x06ca6351, 0x14292967,
  0x27b70a85, 0x2e1b2138, 0x4d2c6dfc, 0x53380d13, 0x650a7354, 0x766a0abb, 0x81c2c92e, 0x92722c85,
  0xa2bfe8a1, 0xa81a664b, 0xc24b8b70, 0xc76c51a3, 0xd192e819, 0xd6990624, 0xf40e3585, 0x106aa070,
  0x19a4c116, 0x1e376c08, 0x2748774c, 0x34b0bcb5, 0x391c0cb3, 0x4ed8aa4a, 0x5b9cca4f, 0x682e6ff3,
  0x748f82ee, 0x78a5636f, 0x84c87814, 0x8cc70208, 0x90befffa, 0xa4506ceb, 0xbef9a3f7, 0xc67178f2]

def rotr (x : UInt32) (n : UInt32) : UInt32 := (x >>> n) ||| (x <<< (32 - n))

def pad (msg : ByteArray) : ByteArray := Id.run do
  let len := msg.size
  let mut out := msg.push 0x80
  while out.size % 64 != 56 do
    out := out.push 0
  let bits : UInt64 := (UInt64.ofNat len) * 8
  for i in [0:8] do
    out := out.push (UInt8.ofNat ((bits >>> (UInt64.ofNat (8 * (7 - i)))).toNat % 256))
  return out

def sha256 (msg : ByteArray) : ByteArray := Id.run do
  let data := pad msg
  let mut h : Array UInt32 := #[0x6a09e667, 0xbb67ae85, 0x3c6ef372, 0xa54ff53a, 0x510e527f, 0x9b05688c, 0x1f83d9ab, 0x5be0cd19]
  let nblocks := data.size / 64
  for blk in [0:nblocks] do
    let mut w : Array UInt32 := Array.replicate 64 0
    for t in [0:16] do
      let i := blk * 64 + t * 4
      let v : UInt32 := ((data.get! i).toUInt32 <<< 24) ||| ((data.get! (i+1)).toUInt32 <<< 16) |||
                        ((data.get! (i+2)).toUInt32 <<< 8) ||| (data.get! (i+3)).toUInt32
      w := w.set! t v
    for t in [16:64] do
      let w15 := w[t-15]!
      let w2 := w[t-2]!
      let s0 := rotr w15 7 ^^^ rotr w15 18 ^^^ (w15 >>> 3)
      let s1 := rotr w2 17 ^^^ rotr w2 19 ^^^ (w2 >>> 10)
      w := w.set! t (w[t-16]! + s0 + w[t-7]! + s1)
    let mut a := h[0]!; let mut b := h[1]!; let mut c := h[2]!; let mut d := h[3]!
    let mut e := h[4]!; let mut f := h[5]!; let mut g := h[6]!; let mut hh := h[7]!
    for t in [0:64] do
      let S1 := rotr e 6 ^^^ rotr e 11 ^^^ rotr e 25
      let ch := (e &&& f) ^^^ ((~~~ e) &&& g)
      let t1 := hh + S1 + ch + K[t]! + w[t]!
      let S0 := rotr a 2 ^^^ rotr a 13 ^^^ rotr a 22
      let maj := (a &&& b) ^^^ (a &&& c) ^^^ (b &&& c)
      let t2 := S0 + maj
      hh := g; g := f; f := e; e := d + t1; d := c; c := b; b := a; a := t1 + t2
    h := #[h[0]! + a, h[1]! + b, h[2]! + c, h[3]! + d, h[4]! + e, h[5]! + f, h[6]! + g, h[7]! + hh]
  let mut out := ByteArray.empty
  for x in h do
    out := out.push (UInt8.ofNat ((x >>> 24).toNat % 256))
    out := out.push (UInt8.ofNat ((x >>> 16).toNat % 256))
    out := out.push (UInt8.ofNat ((x >>> 8).toNat % 256))
    out := out.push (UInt8.ofNat (x.toNat % 256))
  return out

def hmacBA (input key : ByteArray) : ByteArray :=
  let k0 := if key.size > 64 then sha256 key else key
  let k := Id.run do
    let mut k := k0
    while k.size < 64 do k := k.push 0
    return k
  let ipad := ByteArray.mk (k.data.map (· ^^^ 0x36))
  let opad := ByteArray.mk (k.data.map (· ^^^ 0x5c))
  sha256 (opad ++ sha256 (ipad ++ input))

/-- HMAC-SHA256 in the argument order of the model's `Hmac` parameter: input, key -/
def hmac (input key : Bytes) : Bytes :=
  (hmacBA (ByteArray.mk input.toArray) (ByteArray.mk key.toArray)).data.toList

def sha (input : Bytes) : Bytes := (sha256 (ByteArray.mk input.toArray)).data.toList

end Driver.Sha
