/- Line-protocol ops of the handshake (driver only). -/
import Rml.Model.Handshake
import Driver.Sha256
import Driver.Util
namespace Driver
open Rml Rml.Hs

structure HsSlot where
  st : Hs.State
  outbox : Bytes := []
  dead : Bool := false

structure HsSt where
  a : Option HsSlot := none
  b : Option HsSlot := none

def HsSt.get (s : HsSt) (slot : String) : Option HsSlot := if slot == "a" then s.a else if slot == "b" then s.b else none
def HsSt.set (s : HsSt) (slot : String) (x : HsSlot) : HsSt := if slot == "a" then { s with a := some x } else { s with b := some x }

def showHsErr : Hs.Err → String
  | .badVersion => "err:version"
  | .alreadyCompleted => "err:completed"

def hsProc (x : HsSlot) (data : Bytes) : HsSlot × String :=
  if x.dead then (x, "dead") else
  match processBytes Sha.hmac x.st data with
  | .error e => ({ x with dead := true }, showHsErr e)
  | .ok (st', .inProgress r) => ({ x with st := st', outbox := x.outbox ++ r }, s!"prog {showBytes r}")
  | .ok (st', .completed r rem) => ({ x with st := st', outbox := x.outbox ++ r }, s!"done {showBytes r} {showBytes rem}")

def hsOp (s : HsSt) (toks : List String) : Option (HsSt × String) :=
  match toks with
  | ["hs.new", slot, role, f1, f2] =>
    match parseBytes f1, parseBytes f2 with
    | some f1, some f2 =>
      let r := if role == "s" then Role.server else Role.client
      some (s.set slot { st := { role := r, fill1 := f1, fill2 := f2 } }, "ok")
    | _, _ => none
  | ["hs.gen", slot] =>
    match s.get slot with
    | none => none
    | some x =>
      let (st', out) := generateP0P1 Sha.hmac x.st
      some (s.set slot { x with st := st', outbox := x.outbox ++ out }, s!"ok {showBytes out}")
  | ["hs.proc", slot, data] =>
    match s.get slot, parseBytes data with
    | some x, some d => let (x', o) := hsProc x d; some (s.set slot x', o)
    | _, _ => none
  | ["hs.append", slot, data] =>
    match s.get slot, parseBytes data with
    | some x, some d => some (s.set slot { x with outbox := x.outbox ++ d }, "ok")
    | _, _ => none
  | ["hs.xfer", src, dst, n] =>
    match s.get src, s.get dst, n.toNat? with
    | some x, some y, some n =>
      let d := x.outbox.take n
      let (y', o) := hsProc y d
      let s1 := s.set src { x with outbox := x.outbox.drop n }
      some (s1.set dst y', o)
    | _, _, _ => none
  | ["sha.selftest"] =>
    let ok := hexOfBytes (Sha.sha "abc".toUTF8.data.toList) == "ba7816bf8f01cfea414140de5dae2223b00361a396177a9cb410ff61f20015ad"
      && hexOfBytes (Sha.hmac "what do ya want for nothing?".toUTF8.data.toList "Jefe".toUTF8.data.toList) == "5bdcc146bf60754e6a042426089575c75a003f089d2739839dec58b964ec3843"
    some (s, if ok then "ok" else "SHA-SELFTEST-FAILED")
  | _ => none

end Driver
