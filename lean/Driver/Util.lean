/-
Line-protocol utilities shared by the model driver: hex, run-length byte tokens, hashing.
Not part of the model; no theorem depends on this file.
-/
import Rml.Model.Bytes
namespace Driver
open Rml

def hexDigit (n : Nat) : Char :=
  if n < 10 then Char.ofNat (48 + n) else Char.ofNat (87 + n)

def hexOfBytes (bs : Bytes) : String :=
  if bs.isEmpty then "-" else
  String.ofList (bs.foldr (fun x acc => hexDigit (x.toNat / 16) :: hexDigit (x.toNat % 16) :: acc) [])

def hexVal (c : Char) : Option Nat :=
  if '0' ≤ c ∧ c ≤ '9' then some (c.toNat - 48)
  else if 'a' ≤ c ∧ c ≤ 'f' then some (c.toNat - 87)
  else if 'A' ≤ c ∧ c ≤ 'F' then some (c.toNat - 55)
  else none

def parseHexChars : List Char → Option Bytes
  | [] => some []
  | [_] => none
  | a :: b :: rest => do
    let x ← hexVal a
    let y ← hexVal b
    let r ← parseHexChars rest
    pure (UInt8.ofNat (x * 16 + y) :: r)

/-- one segment: `HEX` or `HEX*N` -/
def parseSeg (s : String) : Option Bytes :=
  match s.splitOn "*" with
  | [h] => parseHexChars h.toList
  | [h, n] => do
    let pat ← parseHexChars h.toList
    let k ← n.toNat?
    pure ((List.replicate k pat).flatten)
  | _ => none

/-- byte token: `-` (empty) or `.`-separated segments -/
def parseBytes (s : String) : Option Bytes :=
  if s == "-" then some [] else
  (s.splitOn ".").foldlM (fun acc seg => do let b ← parseSeg seg; pure (acc ++ b)) []

def fnv64 (bs : Bytes) : UInt64 :=
  bs.foldl (fun h x => (h ^^^ x.toUInt64) * 1099511628211) 14695981039346656037

def hex64 (v : UInt64) : String :=
  String.ofList ((List.range 16).map fun i => hexDigit ((v.toNat >>> (4 * (15 - i))) % 16))

/-- canonical output form of a byte string: full hex up to 512 bytes, else length and FNV-1a -/
def showBytes (bs : Bytes) : String :=
  if bs.length ≤ 512 then hexOfBytes bs else s!"h{bs.length}:{hex64 (fnv64 bs)}"

end Driver
