import Rml.Model.Bytes
import Rml.Model.Time
